//! C13 / C14: snapshot save/load round trips and loading of independently written files.
use crate::files::*;
use crate::host::*;
use crate::util::*;
use crate::z80rec::cpu_state;
use rustzx_core::host::{Snapshot, SnapshotRecorder};
use serde_json::{json, Value};
use std::cell::RefCell;
use std::rc::Rc;

/// RAM pattern known to the spec: MemPat in spec/SnapshotTrace.tla
pub fn mem_pat(seed: u32, bank: u8, off: u16) -> u8 {
    let o = off as u64;
    (((o + seed as u64 + bank as u64 * 977) * 167 + (o / 256) * 59 + 13) % 256) as u8
}

/// description bank index -> emulator page
fn page_of(m128: bool, bank: usize) -> u8 {
    if m128 {
        bank as u8
    } else {
        match bank {
            5 => 0,
            2 => 1,
            0 => 2,
            _ => unreachable!(),
        }
    }
}
fn banks_of(m128: bool) -> Vec<usize> {
    if m128 {
        (0..8).collect()
    } else {
        vec![5, 2, 0]
    }
}

fn out_port(emu: &mut Emu, port: u16, v: u8) {
    // OUT (C),A executed from ROM-independent scratch: uses two bytes at 0x8000 and restores them
    let (a, b) = (emu.peek(0x8000), emu.peek(0x8001));
    poke_bytes(emu, 0x8000, &[0xED, 0x79]);
    let saved = {
        let c = emu.verif_cpu();
        (c.regs.get_bc(), c.regs.get_af(), c.regs.get_pc(), c.regs.get_r())
    };
    {
        let c = emu.verif_cpu();
        c.regs.set_bc(port);
        c.regs.set_acc(v);
        c.regs.set_pc(0x8000);
        c.regs.set_iff1(false);
        c.halted = false;
        c.skip_interrupt = false;
        c.verif_set_prefix(0);
    }
    step(emu);
    poke_bytes(emu, 0x8000, &[a, b]);
    let c = emu.verif_cpu();
    c.regs.set_bc(saved.0);
    c.regs.set_af(saved.1);
    c.regs.set_pc(saved.2);
    c.regs.set_r(saved.3);
}

/// writes a whole bank through the CPU write path (128K: via the window at 0xC000)
fn fill_bank(emu: &mut Emu, m128: bool, bank: usize, data: &[u8]) {
    if m128 {
        out_port(emu, 0x7FFD, bank as u8);
        for (o, b) in data.iter().enumerate() {
            emu.verif_bus_write(0xC000 + o as u16, *b);
        }
    } else {
        let base = match bank {
            5 => 0x4000u16,
            2 => 0x8000,
            _ => 0xC000,
        };
        for (o, b) in data.iter().enumerate() {
            emu.verif_bus_write(base + o as u16, *b);
        }
    }
}

fn random_desc(r: &mut Rng, m128: bool, seed: u32) -> (MachineDesc, Vec<(usize, u16, u8)>) {
    let mut banks: Vec<Vec<u8>> = (0..8u8).map(|b| (0..16384u16).map(|o| mem_pat(seed, b, o)).collect()).collect();
    let mut ramw = vec![];
    for _ in 0..r.below(12) {
        let b = *r.pick(&banks_of(m128));
        let o = *r.pick(&[0u16, 1, 0x00FF, 0x0100, 0x1AFF, 0x1B00, 0x3FFE, 0x3FFF, 0x2000]);
        let o = if r.chance(1, 2) { o } else { r.u16() & 0x3FFF };
        let v = r.u8();
        banks[b][o as usize] = v;
        ramw.push((b, o, v));
    }
    let lo_ram = 0x4002u16;
    let sp = if r.chance(1, 4) {
        *r.pick(&[lo_ram, 0x4003, 0x8000, 0x8001, 0xC000, 0xC001, 0xFFFF, 0x0000, 0x0001])
    } else {
        lo_ram + (r.u16() % (0xFFFF - lo_ram))
    };
    // 48K: the two bytes below SP must be RAM (proviso of the statement); 128K has no such need
    let sp = if !m128 && (sp.wrapping_sub(2) < 0x4000 || sp.wrapping_sub(1) < 0x4000) { 0x4002 } else { sp };
    let latch = if m128 { r.u8() & if r.chance(1, 2) { 0xDF } else { 0xFF } } else { 0 };
    let iff = r.chance(1, 2);
    // IFF1 differs from IFF2 inside an NMI routine; the SNA format carries IFF2
    let iff1 = if r.chance(1, 3) { !iff } else { iff };
    let d = MachineDesc {
        m128,
        cpu: CpuDesc {
            af: r.u16(), bc: r.u16(), de: r.u16(), hl: r.u16(), af_: r.u16(), bc_: r.u16(), de_: r.u16(), hl_: r.u16(),
            ix: r.u16(), iy: r.u16(), sp, pc: r.word_b(), i: r.u8(), r: r.u8(), iff1, iff2: iff, im: r.below(3) as u8,
        },
        border: r.below(8) as u8,
        latch,
        banks,
    };
    (d, ramw)
}

/// builds an emulator in the described state through the CPU-visible interfaces
fn build_from(d: &MachineDesc) -> Emu {
    let mut emu = EmuCfg::new(d.m128).build();
    for b in banks_of(d.m128) {
        fill_bank(&mut emu, d.m128, b, &d.banks[b]);
    }
    out_port(&mut emu, 0x00FE, d.border);
    if d.m128 {
        out_port(&mut emu, 0x7FFD, d.latch);
    }
    // out_port uses 0x8000/0x8001 as scratch and restores them: bank 2 content is intact
    let c = emu.verif_cpu();
    let x = &d.cpu;
    c.regs.set_af(x.af_);
    c.regs.set_bc(x.bc_);
    c.regs.set_de(x.de_);
    c.regs.set_hl(x.hl_);
    c.regs.exx();
    c.regs.swap_af_alt();
    c.regs.set_af(x.af);
    c.regs.set_bc(x.bc);
    c.regs.set_de(x.de);
    c.regs.set_hl(x.hl);
    c.regs.set_ix(x.ix);
    c.regs.set_iy(x.iy);
    c.regs.set_sp(x.sp);
    c.regs.set_pc(x.pc);
    c.regs.set_i(x.i);
    c.regs.set_r(x.r);
    c.regs.set_iff1(x.iff1);
    c.regs.set_iff2(x.iff2);
    c.set_im(x.im);
    emu
}

fn machine_state(emu: &mut Emu) -> Value {
    let mut s = cpu_state(emu.verif_cpu());
    let (latch, enabled) = emu.verif_paging();
    s["border"] = json!(emu.border_color() as u8);
    s["latch"] = json!(latch);
    s["locked"] = json!(!enabled);
    s["af"] = json!(emu.verif_cpu().regs.get_af());
    s["bc"] = json!(emu.verif_cpu().regs.get_bc());
    s["de"] = json!(emu.verif_cpu().regs.get_de());
    s["hl"] = json!(emu.verif_cpu().regs.get_hl());
    s
}

/// differences between the emulator's RAM and the expected banks: [[bank, off, want, got]] (first 8)
fn ram_diff(emu: &Emu, m128: bool, want: &[Vec<u8>]) -> Vec<Value> {
    let mut v = vec![];
    for b in banks_of(m128) {
        let got = emu.verif_ram_bank(page_of(m128, b));
        for o in 0..16384 {
            if got[o] != want[b][o] {
                v.push(json!([b, o, want[b][o], got[o]]));
                if v.len() >= 8 {
                    return v;
                }
            }
        }
    }
    v
}

fn dirty_emulator(r: &mut Rng, m128: bool, kind: &str) -> Emu {
    let mut cfg = EmuCfg::new(m128);
    cfg.sound = true;
    cfg.ay = true;
    let mut emu = cfg.build();
    // junk everywhere the snapshot will write
    for b in banks_of(m128) {
        let junk: Vec<u8> = (0..16384u32).map(|o| hash8(r.0, o as u64 + b as u64 * 16384)).collect();
        fill_bank(&mut emu, m128, b, &junk);
    }
    out_port(&mut emu, 0x00FE, r.u8());
    // a tune left playing: tone on A at full volume, a repeating envelope on B
    for (reg, val) in [(0u8, 0x40u8), (1, 0x01), (7, 0x38), (8, 0x0F), (9, 0x10), (11, 7), (12, 0), (13, 0x0E)] {
        out_port(&mut emu, 0xFFFD, reg);
        out_port(&mut emu, 0xBFFD, val);
    }
    match kind {
        "halted" => {
            poke_bytes(&mut emu, 0x9000, &[0x76]);
            let c = emu.verif_cpu();
            c.regs.set_pc(0x9000);
            c.regs.set_iff1(false);
            step(&mut emu);
            assert!(emu.verif_cpu().halted);
        }
        "prefix" => {
            poke_bytes(&mut emu, 0x9000, &[0xDD, 0xFD, 0x00]);
            emu.verif_cpu().regs.set_pc(0x9000);
            step(&mut emu);
            assert!(emu.verif_cpu().verif_prefix() != 0);
        }
        "ei" => {
            poke_bytes(&mut emu, 0x9000, &[0xFB, 0x00]);
            emu.verif_cpu().regs.set_pc(0x9000);
            step(&mut emu);
            assert!(emu.verif_cpu().skip_interrupt);
        }
        "locked" => {
            if m128 {
                out_port(&mut emu, 0x7FFD, 0x20 | (r.u8() & 0x1F));
            }
        }
        _ => {}
    }
    emu
}

fn roundtrips(out: &mut Out, r: &mut Rng, count: u64) {
    for i in 0..count {
        let m128 = i % 2 == 1;
        let seed = r.below(1 << 16) as u32;
        let (mut d, mut ramw) = random_desc(r, m128, seed);
        // two thirds of the machines are caught while running known code, so that "CPU-visible state equals the state at
        // the moment of saving" can also be judged by what the restored machine does next: a few INC A, or - DI; HALT -
        // a CPU that sits halted when the snapshot is taken (the format has no flag for that: it is in the saved PC)
        let frame = if m128 { FRAME_128 } else { FRAME_48 };
        let mut kind = r.below(3);
        let pc = d.cpu.pc;
        let clash = !m128 && (0..4u16).any(|k| { let a = pc.wrapping_add(k); a == d.cpu.sp.wrapping_sub(1) || a == d.cpu.sp.wrapping_sub(2) });
        if !(0x4000..0xFFF0).contains(&pc) || clash {
            kind = 0;
        }
        if kind > 0 {
            let code: [u8; 4] = if kind == 1 { [0x3C, 0x3C, 0x3C, 0x3C] } else { [0x76, 0x3C, 0x3C, 0x3C] };
            for (k, v) in code.iter().enumerate() {
                let a = pc + k as u16;
                let bank = match a >> 14 { 1 => 5usize, 2 => 2, _ => if m128 { (d.latch & 7) as usize } else { 0 } };
                d.banks[bank][(a & 0x3FFF) as usize] = *v;
                ramw.push((bank, a & 0x3FFF, *v));
            }
            if kind == 2 {
                d.cpu.iff1 = false;
                d.cpu.iff2 = false;
            }
        }
        let park = |e: &mut Emu| {
            let t = e.verif_frame_clocks();
            if t < 64 {
                e.verif_wait(200);
            } else if t + 400 > frame {
                e.verif_wait(frame - t + 200);
            }
        };
        let proj = |e: &mut Emu| -> Value {
            let s = cpu_state(e.verif_cpu());
            json!([s["pc"], s["sp"], s["a"], s["f"], s["b"], s["c"], s["d"], s["e"], s["h"], s["l"], s["ix"], s["iy"], s["i"], s["r"], s["iff2"], s["im"], s["halted"]])
        };
        let cont = |e: &mut Emu| -> Vec<Value> {
            park(e);
            (0..4).map(|_| { step(e); proj(e) }).collect()
        };
        // the same machine twice: one to take the snapshot from, one to see how it would have gone on
        let mut emu = build_from(&d);
        let mut twin = build_from(&d);
        if kind == 2 {
            for e in [&mut emu, &mut twin] {
                park(e);
                step(e);
            }
            // at the moment of saving: one more refresh cycle, and PC wherever a halted CPU of this emulator keeps it
            d.cpu.r = (d.cpu.r & 0x80) | (d.cpu.r.wrapping_add(1) & 0x7F);
            d.cpu.pc = emu.verif_cpu().regs.get_pc();
        }
        let cont_ref: Vec<Value> = if kind > 0 { cont(&mut twin) } else { vec![] };
        let before = machine_state(&mut emu);
        // ---- save
        let buf = Rc::new(RefCell::new(Vec::new()));
        let res = emu.save_snapshot(SnapshotRecorder::Sna(VRecorder { out: buf.clone(), limit: 1 << 20 }));
        let file = buf.borrow().clone();
        let after_save = machine_state(&mut emu);
        let side = ram_diff(&emu, m128, &d.banks);
        let reference = if m128 { sna128(&d) } else { sna48(&d) };
        // sampled positions: header, the 128K extension, page boundaries, overridden cells, random ones
        let mut pos: Vec<usize> = (0..27).collect();
        for k in [27usize, 28, 27 + 16383, 27 + 16384, 27 + 32767, 27 + 32768, 27 + 49151, 49179, 49180, 49181, 49182, 49183] {
            pos.push(k);
        }
        for _ in 0..40 {
            pos.push(r.below(file.len().max(1) as u64) as usize);
        }
        if !file.is_empty() {
            pos.push(file.len() - 1);
        }
        let samples: Vec<Value> = pos.iter().filter(|k| **k < file.len()).map(|k| json!([k, file[*k]])).collect();
        let mut loads = vec![];
        // ---- load back
        for target in ["same", "fresh", "halted", "prefix", "ei", "locked", "border"] {
            let mut rx = match target {
                "same" => {
                    // the saving emulator, some time and many changes later
                    let mut e = std::mem::replace(&mut emu, EmuCfg::new(m128).build());
                    for b in banks_of(m128) {
                        if e.verif_paging().1 || !m128 {
                            let junk: Vec<u8> = (0..16384u32).map(|o| hash8(r.0 ^ 7, o as u64 + b as u64)).collect();
                            fill_bank(&mut e, m128, b, &junk);
                        }
                    }
                    out_port(&mut e, 0x00FE, r.u8());
                    let c = e.verif_cpu();
                    c.regs.set_hl(0x1234);
                    c.regs.set_sp(0x9999);
                    c.regs.set_pc(0x7777);
                    c.regs.exx();
                    c.regs.set_hl(0x4321);
                    c.regs.exx();
                    e
                }
                "fresh" => EmuCfg::new(m128).build(),
                k => dirty_emulator(r, m128, k),
            };
            let lr = rx.load_snapshot(Snapshot::Sna(VAsset::new(file.clone())));
            let st = machine_state(&mut rx);
            let cont_rx: Vec<Value> = if kind > 0 && lr.is_ok() { cont(&mut rx) } else { cont_ref.clone() };
            // RAM expected: the saved RAM; on the 48K the two bytes below SP hold PC (format)
            let mut want = d.banks.clone();
            if !m128 {
                let spm2 = d.cpu.sp.wrapping_sub(2);
                for (k, b) in d.cpu.pc.to_le_bytes().iter().enumerate() {
                    let a = spm2.wrapping_add(k as u16);
                    if a >= 0x4000 {
                        let (bank, off) = match a >> 14 { 1 => (5, a - 0x4000), 2 => (2, a - 0x8000), _ => (0, a - 0xC000) };
                        want[bank][off as usize] = *b;
                    }
                }
            }
            loads.push(json!({"target":target,"ok":lr.is_ok(),"state":st,"ram_diff":ram_diff(&rx, m128, &want),"cont":cont_rx}));
        }
        let ramw_j: Vec<Value> = ramw.iter().map(|(b, o, v)| json!([b, o, v])).collect();
        out.ev(json!({"ev":"roundtrip","m": if m128 {128} else {48},"seed":seed,"desc":{"cpu":d.cpu.json(),"border":d.border,"latch":d.latch},
                      "ramw":ramw_j,"before":before,"kind":kind,"cont_ref":cont_ref,
                      "save":{"ok":res.is_ok(),"len":file.len(),"samples":samples,"full_equal":file == reference,
                              "after":after_save,"ram_side_effects":side},
                      "loads":loads}));
    }
}

fn ay_readback(emu: &mut Emu) -> Vec<u8> {
    (0..16u8)
        .map(|k| {
            out_port(emu, 0xFFFD, k);
            in_port(emu, 0xFFFD)
        })
        .collect()
}

fn in_port(emu: &mut Emu, port: u16) -> u8 {
    let (a, b) = (emu.peek(0x8000), emu.peek(0x8001));
    poke_bytes(emu, 0x8000, &[0xED, 0x78]);
    let saved = {
        let c = emu.verif_cpu();
        (c.regs.get_bc(), c.regs.get_af(), c.regs.get_pc(), c.regs.get_r(), c.halted, c.skip_interrupt, c.regs.get_iff1())
    };
    {
        let c = emu.verif_cpu();
        c.regs.set_bc(port);
        c.regs.set_pc(0x8000);
        c.regs.set_iff1(false);
        c.halted = false;
        c.skip_interrupt = false;
    }
    step(emu);
    let v = emu.verif_cpu().regs.get_acc();
    poke_bytes(emu, 0x8000, &[a, b]);
    let c = emu.verif_cpu();
    c.regs.set_bc(saved.0);
    c.regs.set_af(saved.1);
    c.regs.set_pc(saved.2);
    c.regs.set_r(saved.3);
    c.halted = saved.4;
    c.skip_interrupt = saved.5;
    c.regs.set_iff1(saved.6);
    v
}

/// "every RAM page as seen by ... the display": the CPU is parked in a DI / JR $ loop outside the screen for two
/// frames (nothing writes memory), the canvas is sampled at random pixels, then CPU and the two code bytes are restored.
/// `avoid`: display-file offsets the loader itself legitimately changed (48K SNA: PC left on the stack)
fn display_sample(emu: &mut Emu, r: &mut Rng, avoid: &[usize], out7ffd: Option<u8>) -> Vec<Value> {
    display_sample2(emu, r, avoid, out7ffd, None).1
}

/// `first_from`: also sample the first frame that completes (the one the loaded machine continues), at picture lines the
/// beam reaches after that in-frame time; returns (samples of that frame, samples of the following frame)
fn display_sample2(emu: &mut Emu, r: &mut Rng, avoid: &[usize], out7ffd: Option<u8>, first_from: Option<(usize, bool)>) -> (Vec<Value>, Vec<Value>) {
    let saved_mem: Vec<u8> = (0..4u16).map(|k| emu.peek(0x8000 + k)).collect();
    // with `out7ffd`: OUT (C),A first (the program switches the displayed screen), then the loop
    match out7ffd {
        Some(_) => poke_bytes(emu, 0x8000, &[0xED, 0x79, 0x18, 0xFE]),
        None => poke_bytes(emu, 0x8000, &[0x18, 0xFE]),
    }
    let saved = {
        let c = emu.verif_cpu();
        (c.regs.get_pc(), c.regs.get_r(), c.halted, c.skip_interrupt, c.regs.get_iff1(), c.regs.get_mem_ptr(), c.regs.verif_q(), c.regs.get_bc(), c.regs.get_af())
    };
    {
        let c = emu.verif_cpu();
        c.regs.set_pc(0x8000);
        c.regs.set_iff1(false);
        c.halted = false;
        c.skip_interrupt = false;
        if let Some(v) = out7ffd {
            c.regs.set_bc(0x7FFD);
            c.regs.set_acc(v);
        }
    }
    emu.set_debug_interface(VDebug::Never);
    emu.set_speed(rustzx_core::EmulationMode::FrameCount(1));
    // (a frame that ended during the receiver's earlier single-stepped life may still be waiting to be handed over: that
    // call executes nothing)
    let (t_before, r_before) = (emu.verif_frame_clocks(), emu.verif_cpu().regs.get_r());
    let _ = emu.emulate_frames(std::time::Duration::from_secs(100));
    if emu.verif_frame_clocks() == t_before && emu.verif_cpu().regs.get_r() == r_before {
        let _ = emu.emulate_frames(std::time::Duration::from_secs(100));
    }
    let mut first = vec![];
    if let Some((from_t, m128)) = first_from {
        let (t0, line) = if m128 { (14362usize, 228usize) } else { (14336usize, 224usize) };
        let y0 = if from_t + 32 <= t0 { 0 } else { (from_t + 32 - t0) / line + 1 };
        let px = emu.screen_buffer().px.clone();
        let mut tries = 0;
        while y0 < 192 && first.len() < 24 && tries < 500 {
            tries += 1;
            let (x, y) = (r.below(256) as usize, y0 + r.below((192 - y0) as u64) as usize);
            let bo = ((y / 64) * 2048) + ((y % 8) * 256) + (((y / 8) % 8) * 32) + x / 8;
            let ao = 6144 + (y / 8) * 32 + x / 8;
            if avoid.contains(&bo) || avoid.contains(&ao) {
                continue;
            }
            first.push(json!([x, y, px[y * 256 + x]]));
        }
    }
    let _ = emu.emulate_frames(std::time::Duration::from_secs(100));
    while emu.next_audio_sample().is_some() {}
    let px = emu.screen_buffer().px.clone();
    let mut v = vec![];
    while v.len() < 32 {
        let (x, y) = (r.below(256) as usize, r.below(192) as usize);
        let bo = ((y / 64) * 2048) + ((y % 8) * 256) + (((y / 8) % 8) * 32) + x / 8;
        let ao = 6144 + (y / 8) * 32 + x / 8;
        if avoid.contains(&bo) || avoid.contains(&ao) {
            continue;
        }
        v.push(json!([x, y, px[y * 256 + x]]));
    }
    poke_bytes(emu, 0x8000, &saved_mem);
    let c = emu.verif_cpu();
    c.regs.set_pc(saved.0);
    c.regs.set_r(saved.1);
    c.halted = saved.2;
    c.skip_interrupt = saved.3;
    c.regs.set_iff1(saved.4);
    c.regs.set_mem_ptr(saved.5);
    c.regs.verif_set_q(saved.6);
    c.regs.set_bc(saved.7);
    c.regs.set_af(saved.8);
    (first, v)
}

/// C14: independently written files loaded into emulators of either model
fn fileloads(out: &mut Out, r: &mut Rng, count: u64) {
    for i in 0..count {
        let m_file = i % 2 == 1;
        let seed = r.below(1 << 16) as u32;
        let (mut d, mut ramw) = random_desc(r, m_file, seed);
        // a third of the machines hold pages that no compressor can shrink (packed or encrypted data): their zlib streams
        // are longer than the page itself. (The screen banks keep the pattern the spec can decode.)
        if r.chance(1, 3) {
            for b in [0usize, 1, 2, 3, 4, 6] {
                if r.chance(1, 2) {
                    let key = r.next();
                    let mut x = key | 1;
                    for o in 0..16384usize {
                        // xorshift64*: high-entropy bytes
                        x ^= x >> 12;
                        x ^= x << 25;
                        x ^= x >> 27;
                        d.banks[b][o] = (x.wrapping_mul(0x2545F4914F6CDD1D) >> 56) as u8;
                    }
                }
            }
            for (b, o, v) in ramw.iter() {
                d.banks[*b][*o as usize] = *v;
            }
        }
        if r.chance(1, 2) {
            d.cpu.iff1 = r.chance(1, 2); // SZX carries IFF1 separately
        }
        // a HALT at PC-1 and at PC followed by INC A: whatever PC convention the format uses for a halted
        // CPU, a machine that "is halted" must not get to the INC A
        let pc = 0x9000 + (r.u16() & 0x0FFF);
        d.cpu.pc = pc;
        for (k, v) in [(pc.wrapping_sub(1), 0x76u8), (pc, 0x76), (pc + 1, 0x3C), (pc + 2, 0x18), (pc + 3, 0xFD)] {
            let (bank, off) = (2usize, k - 0x8000);
            d.banks[bank][off as usize] = v;
            ramw.push((bank, off, v));
        }
        if d.cpu.sp >= 0x8FF0 && d.cpu.sp <= 0xA010 {
            d.cpu.sp = 0x7000;
        }
        // interrupts, if enabled, go to the ROM's IM 1 handler (an IM 2 table in random memory would run wild)
        d.cpu.im = 1;
        let halted = r.chance(1, 4);
        if halted {
            d.cpu.iff1 = false;
            d.cpu.iff2 = false;
        }
        let eilast = !halted && r.chance(1, 4);
        let mut ayregs = [0u8; 16];
        for (k, v) in ayregs.iter_mut().enumerate() {
            *v = r.u8() & [0xFF, 0x0F, 0xFF, 0x0F, 0xFF, 0x0F, 0x1F, 0xFF, 0x1F, 0x1F, 0x1F, 0xFF, 0xFF, 0x0F, 0xFF, 0xFF][k];
        }
        // what the file's AY registers sound like: 0 = silence (all volumes 0, no envelope mode), 1 = a fixed-volume
        // tone on A, 2 = tone and noise off everywhere and channel A following a repeating envelope
        let aykind = r.below(3);
        let audible = aykind != 0;
        match aykind {
            1 => {
                ayregs[0] = 0x23;
                ayregs[1] = 0x01;
                ayregs[7] = 0xFE;
                ayregs[8] = 0x0F;
            }
            2 => {
                ayregs[7] = 0x3F;
                ayregs[8] = 0x10;
                ayregs[9] = 0;
                ayregs[10] = 0;
                ayregs[11] = 20;
                ayregs[12] = 0;
                ayregs[13] = *r.pick(&[0x08u8, 0x0A, 0x0C, 0x0E]);
            }
            _ => {
                ayregs[8] = 0;
                ayregs[9] = 0;
                ayregs[10] = 0;
            }
        }
        let ay = if r.chance(2, 3) { Some((r.below(16) as u8, ayregs)) } else { None };
        // SZX files say at which T-state of its frame the machine was saved
        let flen = if m_file { FRAME_128 } else { FRAME_48 };
        let cycles = if r.chance(1, 2) { 0 } else { r.below(flen as u64 - 2000) as u32 };
        let fset = r.chance(1, 3);
        // (the SZX mouse chunk: absent, Kempston = 2, none = 0, AMX = 1 - a machine without a Kempston mouse)
        let mouse = match r.below(4) { 0 => None, 1 => Some(2u8), 2 => Some(0u8), _ => Some(1u8) };
        let encs: Vec<(&str, Vec<u8>)> = vec![
            ("sna", if m_file { sna128(&d) } else { sna48(&d) }),
            ("szx", szx(&d, &SzxOpts { halted, eilast, ay, mouse, cycles, fset, ..Default::default() })),
            ("szxz", szx(&d, &SzxOpts { compressed: true, shuffle: r.next() | 1, junk_chunks: true, halted, eilast, ay, mouse, cycles, fset, ..Default::default() })),
        ];
        let ramw_j: Vec<Value> = ramw.iter().map(|(b, o, v)| json!([b, o, v])).collect();
        for (enc, bytes) in encs.iter() {
            for target in ["fresh", "halted", "prefix", "locked", "ei", "othermodel"] {
                let m_emu = if target == "othermodel" { !m_file } else { m_file };
                let mut rx = match target {
                    "fresh" | "othermodel" => {
                        let mut c = EmuCfg::new(m_emu);
                        c.sound = true;
                        // (a 48K machine may be built without the AY: a 48K file that has one brings it along)
                        c.ay = m_emu || r.chance(1, 2);
                        c.mouse = r.chance(1, 2);
                        c.build()
                    }
                    k => dirty_emulator(r, m_emu, k),
                };
                // 48K receivers: the host may have switched the AY at run time, or an earlier snapshot without one may have
                // taken it away
                let ayhist = if m_emu { 0 } else { r.below(4) };
                match ayhist {
                    1 => rx.set_ay_enabled(false),
                    2 => rx.set_ay_enabled(true),
                    3 => {
                        let d0 = MachineDesc { m128: false, cpu: CpuDesc::default(), border: 0, latch: 0, banks: vec![vec![0u8; 16384]; 8] };
                        let _ = rx.load_snapshot(Snapshot::Szx(VAsset::new(szx(&d0, &SzxOpts { ay: Some((0, [0u8; 16])), ay_flags: Some(0), ..Default::default() }))));
                    }
                    _ => {}
                }
                // the file arrives at a frame boundary or somewhere in the middle of the receiver's frame (a breakpoint stop)
                if m_emu == m_file && r.chance(1, 2) {
                    let t = rx.verif_frame_clocks();
                    if t + 3000 < flen {
                        rx.verif_wait(r.below((flen - t - 2000) as u64) as usize);
                    }
                }
                // ... where the program that was running may just have changed the border below the last visible line
                if m_emu == m_file && r.chance(1, 4) {
                    let t = rx.verif_frame_clocks();
                    let bottom = flen - 6000;
                    if t < bottom {
                        rx.verif_wait(bottom - t + r.below(4000) as usize);
                        out_port(&mut rx, 0x00FE, r.u8());
                    }
                }
                let t_rx = rx.verif_frame_clocks();
                let before = machine_state(&mut rx);
                let b2 = bytes.clone();
                let is_sna = *enc == "sna";
                // the host's asset may hand the file out whole or in pieces (short reads)
                let chunk = [0usize, 0, 16384, 4096, 1000, 7][r.below(6) as usize];
                let res = guarded(|| {
                    if is_sna {
                        rx.load_snapshot(Snapshot::Sna(VAsset::new(b2).chunked(chunk)))
                    } else {
                        rx.load_snapshot(Snapshot::Szx(VAsset::new(b2).chunked(chunk)))
                    }
                });
                let (outcome, detail) = match &res {
                    Ok(Ok(())) => ("ok", String::new()),
                    Ok(Err(e)) => ("err", format!("{e:?}")),
                    Err(p) => ("panic", p.clone()),
                };
                let mut ev = json!({"ev":"fileload","enc":enc,"target":target,"m_file": if m_file {128} else {48},
                                    "m_emu": if m_emu {128} else {48},"seed":seed,"ramw":ramw_j,
                                    "desc":{"cpu":d.cpu.json(),"border":d.border,"latch":d.latch},
                                    "opts":{"halted":halted && !is_sna,"eilast":eilast && !is_sna,
                                            "ay": if is_sna || ay.is_none() { json!([]) } else { json!([{"cur":ay.unwrap().0,"regs":ay.unwrap().1.to_vec()}]) },
                                            "mouse": if is_sna { -1 } else { mouse.map(|m| m as i32).unwrap_or(-1) },
                                            "fset": fset && !is_sna,
                                            "audible": audible && !is_sna && ay.is_some(),
                                            "quiet": !audible && !is_sna && ay.is_some()},
                                    "outcome":outcome,"detail":detail,"is_sna":is_sna,"before":before,"ayhist":ayhist});
                if outcome == "ok" && m_emu == m_file {
                    let st = machine_state(&mut rx);
                    let mut want = d.banks.clone();
                    if is_sna && !m_file {
                        let spm2 = d.cpu.sp.wrapping_sub(2);
                        for (k, b) in d.cpu.pc.to_le_bytes().iter().enumerate() {
                            let a = spm2.wrapping_add(k as u16);
                            if a >= 0x4000 {
                                let (bank, off) = match a >> 14 { 1 => (5, a - 0x4000), 2 => (2, a - 0x8000), _ => (0, a - 0xC000) };
                                want[bank][off as usize] = *b;
                            }
                        }
                    }
                    ev["state"] = st;
                    ev["ram_diff"] = json!(ram_diff(&rx, m_file, &want));
                    let mut avoid = vec![];
                    if is_sna && !m_file {
                        for k in 0..2u16 {
                            let a = d.cpu.sp.wrapping_sub(2).wrapping_add(k);
                            if (0x4000..0x5B00).contains(&a) {
                                avoid.push((a - 0x4000) as usize);
                            }
                        }
                    }
                    // the frame the machine continues: what the beam reaches after the moment of the load (SNA: the receiver's
                    // own clock goes on; SZX: the file's) shows the file's screen already
                    let from_t = if is_sna { t_rx } else { cycles as usize };
                    let (pf, pm) = display_sample2(&mut rx, r, &avoid, None, Some((from_t, m_file)));
                    // "border": what is painted two frames on, not only what is reported
                    let painted: std::collections::BTreeSet<u8> = {
                        let fb = rx.border_buffer();
                        (0..fb.h).filter(|y| *y < 20 || *y + 20 >= fb.h).flat_map(|y| fb.px[y * fb.w..(y + 1) * fb.w].iter().map(|c| *c as u8).collect::<Vec<u8>>()).collect()
                    };
                    ev["border_painted"] = json!(painted);
                    ev["pix_first"] = json!(pf);
                    ev["first_from"] = json!([from_t, t_rx, cycles]);
                    ev["pix"] = json!(pm);
                    // 128K with paging not locked: the program switches to the other screen bank - the display must
                    // show that bank as the file describes it - and back
                    if m_file && d.latch & 0x20 == 0 {
                        ev["pix_other"] = json!(display_sample(&mut rx, r, &avoid, Some(d.latch ^ 8)));
                        let _ = display_sample(&mut rx, r, &avoid, Some(d.latch));
                    } else {
                        ev["pix_other"] = json!([]);
                    }
                    if !is_sna {
                        ev["ay_readback"] = json!(ay_readback(&mut rx));
                        rx.send_mouse_pos_diff(5, 0);
                        let x1 = in_port(&mut rx, 0xFBDF);
                        rx.send_mouse_pos_diff(3, 0);
                        let x2 = in_port(&mut rx, 0xFBDF);
                        ev["mouse_present"] = json!(x1 != x2);
                        // behaviour: three frames later
                        let guard = guarded(|| {
                            rx.set_debug_interface(VDebug::Never);
                            rx.set_speed(rustzx_core::EmulationMode::FrameCount(1));
                            let mut energy = 0f64;
                            let mut last = 0f64;
                            let mut n = 0usize;
                            for _ in 0..4 {
                                let _ = rx.emulate_frames(std::time::Duration::from_secs(100));
                                let mut samples = vec![];
                                while let Some(s) = rx.next_audio_sample() {
                                    samples.push(s.left as f64 + s.right as f64);
                                }
                                let mean = samples.iter().sum::<f64>() / samples.len().max(1) as f64;
                                last = samples.iter().map(|x| (x - mean).abs()).sum::<f64>();
                                energy += last;
                                n += samples.len();
                            }
                            (energy, n, last)
                        });
                        if let Ok((energy, n, last)) = guard {
                            ev["after3"] = json!({"a": rx.verif_cpu().regs.get_acc(), "halted": rx.verif_cpu().halted,
                                                   "pc": rx.verif_cpu().regs.get_pc(), "energy": (energy * 1000.0) as u64, "energy_last": (last * 1000.0) as u64, "samples": n});
                        } else {
                            ev["after3"] = json!({"a": -1, "halted": false, "pc": 0, "energy": 0, "energy_last": 0, "samples": 0});
                            ev["detail"] = json!(guard.err());
                        }
                    }
                }
                out.ev(ev);
            }
        }
    }
}

/// C14: SCR files
fn scrloads(out: &mut Out, r: &mut Rng, count: u64) {
    use rustzx_core::host::Screen;
    for i in 0..count {
        let m128 = i % 2 == 1;
        let len = match i % 5 { 4 => *r.pick(&[0usize, 6911, 6913, 49179]), _ => 6912 };
        let bytes = r.bytes(len);
        let kind = *r.pick(&["border", "halted", "locked"]);
        let mut emu = dirty_emulator(r, m128, kind);
        let res = guarded(|| emu.load_screen(Screen::Scr(VAsset::new(bytes.clone()))));
        let outcome = match &res { Ok(Ok(())) => "ok", Ok(Err(_)) => "err", Err(_) => "panic" };
        let diff: Vec<Value> = if outcome == "ok" {
            (0..6912usize).filter(|o| emu.peek(0x4000 + *o as u16) != bytes[*o]).take(8).map(|o| json!([o, bytes[o], emu.peek(0x4000 + o as u16)])).collect()
        } else {
            vec![]
        };
        out.ev(json!({"ev":"scrload","m": if m128 {128} else {48},"len":len,"outcome":outcome,"diff":diff,
                      "detail": res.err().unwrap_or_default()}));
    }
}

pub fn run(args: &Args) {
    let mut out = Out::create(&args.str("out", "-"));
    let seed = args.num("seed", 1);
    let mut r = Rng::new(seed ^ 0xC13);
    roundtrips(&mut out, &mut r, args.num("roundtrips", 0));
    fileloads(&mut out, &mut r, args.num("fileloads", 0));
    scrloads(&mut out, &mut r, args.num("scrloads", 0));
    let n = out.finish();
    eprintln!("snapshot: {n} events");
}
