//! C19: speaker / MIC toggles at chosen beam times; per frame the samples the host pops.
use crate::host::*;
use crate::util::*;
use serde_json::{json, Value};
use std::time::Duration;

const CODE: u16 = 0x8000; // ED 79 ; 18 FE

pub fn run(args: &Args) {
    let mut out = Out::create(&args.str("out", "-"));
    let seed = args.num("seed", 1);
    let configs = args.num("configs", 8);
    let frames = args.num("frames", 30);
    let mut r = Rng::new(seed ^ 0xC19);
    let rates = [8000usize, 11025, 22050, 44100, 48000, 96000, 192000, 384000];
    for ci in 0..configs {
        let m128 = ci % 2 == 1;
        let frame_len = if m128 { FRAME_128 } else { FRAME_48 };
        // the first 8 configurations sweep the rates beeper-only (every 4th with AY), the next 8 sweep them with AY
        let rate = if ci < 16 { rates[(ci % 8) as usize] } else if r.chance(1, 2) { *r.pick(&rates) } else { 8000 + r.below(376_000) as usize };
        let volume = *r.pick(&[100u8, 100, 50, 200, 1]);
        let ay = (ci % 4 == 3 && ci != 7) || (8..16).contains(&ci); // (7: the highest rate with the beeper alone)
        let drain = match ci % 6 { 4 => "sometimes", 5 => "never", _ => "always" };
        // a host may start muted and switch the sound on later; a machine may be configured without the beeper device
        // (then the program's speaker/MIC writes are not heard: with the AY off as well the samples are all zero)
        let muted_start = ci % 3 == 1;
        let beeper = ay || ci % 8 != 6;
        let mut cfg = EmuCfg::new(m128);
        cfg.sound = !muted_start;
        cfg.beeper = beeper;
        cfg.ay = ay;
        cfg.rate = rate;
        cfg.volume = volume;
        let mut emu = cfg.build();
        if muted_start {
            emu.set_sound(true);
        }
        // the idle loop between the writes: JR $, or - odd configurations - a loop of long instructions (RLC (IX+0), 23 T),
        // so that the instruction that crosses the frame end reaches well into the next frame
        if ci % 2 == 1 {
            poke_bytes(&mut emu, CODE, &[0xED, 0x79, 0xDD, 0xCB, 0x00, 0x06, 0x18, 0xFA]);
            emu.verif_cpu().regs.set_ix(0x9000);
        } else {
            poke_bytes(&mut emu, CODE, &[0xED, 0x79, 0x18, 0xFE]);
        }
        {
            let c = emu.verif_cpu();
            c.regs.set_sp(0xBFF0);
            c.regs.set_iff1(false);
        }
        if ay {
            // something audible on the AY so that mixing is exercised
            for (reg, v) in [(0u8, 0x40u8), (1, 0x01), (7, 0xFE), (8, 0x0F)] {
                for (port, val) in [(0xFFFDu16, reg), (0xBFFD, v)] {
                    let c = emu.verif_cpu();
                    c.regs.set_bc(port);
                    c.regs.set_acc(val);
                    c.regs.set_pc(CODE);
                    step(&mut emu);
                }
            }
        }
        out.ev(json!({"ev":"acfg","m": if m128 {128} else {48},"rate":rate,"volume":volume,"ay":ay,"drain":drain,"muted_start":muted_start,"beeper":beeper}));
        // first frame (not judged): bring the machine to a frame boundary with an empty queue
        let finish = |emu: &mut Emu| {
            let c = emu.verif_cpu();
            c.regs.set_pc(CODE + 2);
            emu.set_debug_interface(VDebug::Never);
            emu.set_speed(rustzx_core::EmulationMode::FrameCount(1));
            emu.emulate_frames(Duration::from_secs(1000)).unwrap();
        };
        finish(&mut emu);
        while emu.next_audio_sample().is_some() {}
        let mut level = 0u8; // bits 3 (MIC) and 4 (EAR) of the last write
        for f in 0..frames {
            let start_level = level;
            let n = match r.below(5) { 0 => 0, 1 => 1, 2 => 2, _ => r.below(12) };
            let mut times: Vec<usize> = (0..n).map(|_| match r.below(4) {
                0 => r.below(60) as usize,                            // right after the frame start
                1 => frame_len - 14 - r.below(60) as usize,          // right before the frame end
                _ => r.below(frame_len as u64 - 14) as usize,
            }).collect();
            times.sort();
            // the host may apply its AY option again at any frame boundary (the value it already has): nothing audible changes
            if r.chance(1, 5) {
                emu.set_ay_enabled(ay);
            }
            let mut writes = vec![];
            // now and then the frame begins with a snapshot being loaded (SZX: it carries the last value written to port
            // 0xFE, so the speaker and MIC levels are part of the state it restores)
            if !ay && r.chance(1, 6) {
                use crate::files::*;
                let mut banks: Vec<Vec<u8>> = (0..8).map(|_| vec![0u8; 16384]).collect();
                if ci % 2 == 1 {
                    banks[2][..8].copy_from_slice(&[0xED, 0x79, 0xDD, 0xCB, 0x00, 0x06, 0x18, 0xFA]);
                } else {
                    banks[2][..4].copy_from_slice(&[0xED, 0x79, 0x18, 0xFE]);
                }
                let border = r.below(8) as u8;
                let fe = border | (r.u8() & 0xF8);
                let d = MachineDesc {
                    m128,
                    cpu: CpuDesc { af: 0, bc: 0, de: 0, hl: 0, af_: 0, bc_: 0, de_: 0, hl_: 0, ix: 0x9000, iy: 0,
                                   sp: 0xBFF0, pc: CODE + 2, i: 0, r: 0, iff1: false, iff2: false, im: 1 },
                    border,
                    latch: 0,
                    banks,
                };
                let t_load = emu.verif_frame_clocks();
                emu.load_snapshot(rustzx_core::host::Snapshot::Szx(VAsset::new(szx(&d, &SzxOpts { fe: Some(fe), ..Default::default() })))).unwrap();
                level = (fe >> 3) & 3;
                // for the judgement this is a write at the very start of the frame
                writes.push(json!([t_load.min(2), level]));
                times.retain(|t| *t > 40);
            }
            for t in times {
                let cur = emu.verif_frame_clocks();
                if t < cur + 1 {
                    continue;
                }
                emu.verif_wait(t - cur);
                // any byte (bits 5-7 are unused by the ULA), through port 0xFE with any upper address byte
                let v = r.u8();
                let port = ((r.u8() as u16) << 8) | 0xFE;
                let t0 = emu.verif_frame_clocks();
                {
                    let c = emu.verif_cpu();
                    c.regs.set_bc(port);
                    c.regs.set_acc(v);
                    c.regs.set_pc(CODE);
                }
                step(&mut emu);
                if emu.verif_frame_clocks() < t0 {
                    unreachable!("write crossed the frame end");
                }
                writes.push(json!([t0, (v >> 3) & 3]));
                level = (v >> 3) & 3;
            }
            finish(&mut emu);
            let do_drain = match drain { "always" => true, "never" => false, _ => f % 3 != 1 };
            // (without the beeper device the level heard is 0 whatever the program writes)
            let mut ev = if beeper {
                json!({"ev":"aframe","writes":writes,"start":start_level,"drained":do_drain})
            } else {
                json!({"ev":"aframe","writes":[],"start":0,"drained":do_drain,"unheard":writes})
            };
            if do_drain {
                let mut samples: Vec<(f32, f32)> = vec![];
                while let Some(s) = emu.next_audio_sample() {
                    samples.push((s.left, s.right));
                }
                let finite = samples.iter().all(|(l, r)| l.is_finite() && r.is_finite());
                let maxabs = samples.iter().fold(0f32, |m, (l, r)| m.max(l.abs()).max(r.abs()));
                ev["n"] = json!(samples.len());
                ev["finite"] = json!(finite);
                ev["maxabs_micro"] = json!((maxabs as f64 * 1e6) as u64);
                if !ay {
                    // map every sample to the speaker/MIC level it encodes: (ear*0.5 + mic*0.1) * volume/200
                    let vol = volume as f64 / 200.0;
                    let code = |x: f32| -> i32 {
                        for c in 0..4 {
                            let want = (((c >> 1) & 1) as f64 * 0.5 + (c & 1) as f64 * 0.1) * vol;
                            if (x as f64 - want).abs() < 1e-6 {
                                return c;
                            }
                        }
                        9
                    };
                    let mut runs: Vec<Value> = vec![];
                    let mut cur = -1;
                    let mut cnt = 0;
                    let mut lr_equal = true;
                    for (l, rr) in samples.iter() {
                        if l != rr {
                            lr_equal = false;
                        }
                        let c = code(*l);
                        if c == cur {
                            cnt += 1;
                        } else {
                            if cnt > 0 {
                                runs.push(json!([cur, cnt]));
                            }
                            cur = c;
                            cnt = 1;
                        }
                    }
                    if cnt > 0 {
                        runs.push(json!([cur, cnt]));
                    }
                    ev["runs"] = json!(runs);
                    ev["lr_equal"] = json!(lr_equal);
                }
            } else {
                // queue length without draining: count by popping into a side buffer is destructive, so
                // the harness measures it only at the end of the run
            }
            out.ev(ev);
        }
        // how much was queued by a host that did not (always) drain
        let mut queued = 0usize;
        while emu.next_audio_sample().is_some() {
            queued += 1;
        }
        out.ev(json!({"ev":"aend","queued":queued}));
    }
    let n = out.finish();
    eprintln!("audio: {n} events");
}
