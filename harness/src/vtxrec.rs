//! C20: the VTX player over a recording AY backend (event log per play() call), the real backend
//! for chunking independence of the sample stream, and decoding of the repository's VTX files.
use crate::util::*;
use aym::{AyMode, AymBackend, SoundChip, StereoSample};
use serde_json::{json, Value};
use std::cell::RefCell;
use std::rc::Rc;
use vtx::player::Player;
use vtx::Vtx;

thread_local! {
    static LOG: RefCell<Vec<Value>> = RefCell::new(vec![]);
    static COUNT: RefCell<u32> = RefCell::new(0);
}

pub struct RecAy;
impl AymBackend for RecAy {
    type SoundSample = f64;
    fn new(_chip: SoundChip, _mode: AyMode, _frequency: usize, _sample_rate: usize) -> Self {
        RecAy
    }
    fn write_register(&mut self, address: u8, value: u8) {
        LOG.with(|l| l.borrow_mut().push(json!(["w", address, value])));
    }
    fn next_sample(&mut self) -> StereoSample<f64> {
        LOG.with(|l| l.borrow_mut().push(json!(["s"])));
        let n = COUNT.with(|c| {
            *c.borrow_mut() += 1;
            *c.borrow()
        });
        // left = sample number, right = its negative: lets the trace see which channel went where
        StereoSample { left: n as f64, right: -(n as f64) }
    }
}

fn mk_vtx(frames: &[Vec<u8>], player_frequency: u8) -> Vtx {
    mk_vtx_layout(frames, player_frequency, 1)
}

/// `layout`: the track's own channel layout field (0 = mono, 1..6 = ABC..CBA) - it pans the chip; how many channels the
/// caller gets is the caller's choice
fn mk_vtx_layout(frames: &[Vec<u8>], player_frequency: u8, layout: u64) -> Vtx {
    Vtx {
        chip: if layout % 2 == 0 { vtx::SoundChip::YM } else { vtx::SoundChip::AY },
        stereo: match layout { 0 => vtx::Stereo::Mono, 1 => vtx::Stereo::ABC, 2 => vtx::Stereo::ACB, 3 => vtx::Stereo::BAC,
                               4 => vtx::Stereo::BCA, 5 => vtx::Stereo::CAB, _ => vtx::Stereo::CBA },
        frequency: 1_773_400,
        player_frequency,
        loop_start_frame: 0,
        year: 0,
        title: String::new(),
        author: String::new(),
        from: String::new(),
        tracker: String::new(),
        comment: String::new(),
        frame_data: frames.concat(),
    }
}

fn random_frames(r: &mut Rng, n: usize) -> Vec<Vec<u8>> {
    (0..n)
        .map(|_| {
            let mut f = r.bytes(14);
            if r.chance(1, 2) {
                f[13] = 0xFF;
            }
            f
        })
        .collect()
}

fn player_runs(out: &mut Out, r: &mut Rng, count: u64) {
    for i in 0..count {
        let nframes = r.below(6) as usize;
        let frames = random_frames(r, nframes);
        // small sample counts per frame so that many frame boundaries are crossed by small buffers
        let pf = *r.pick(&[50u8, 100, 200, 255, 1, 25]);
        let spf = 1 + r.below(7) as usize;
        let rate = pf as usize * spf + r.below(pf as u64) as usize;
        let stereo = i % 2 == 1;
        LOG.with(|l| l.borrow_mut().clear());
        COUNT.with(|c| *c.borrow_mut() = 0);
        let mut pl: Player<RecAy> = Player::new(mk_vtx_layout(&frames, pf, i / 2 % 7), rate, stereo);
        out.ev(json!({"ev":"track","frames":frames,"rate":rate,"pf":pf,"stereo":stereo}));
        let mut calls = 0;
        let mut seeks = 0;
        loop {
            // now and then the caller seeks between two play() calls, wherever the player stands (inside a frame as well):
            // playback goes on from the first sample of the frame asked for
            if seeks < 3 && r.chance(1, 8) {
                seeks += 1;
                if r.chance(1, 2) {
                    pl.rewind();
                    let log = LOG.with(|l| std::mem::take(&mut *l.borrow_mut()));
                    out.ev(json!({"ev":"seek","frame":0,"ret":true,"log":log}));
                } else {
                    let k = r.below(nframes as u64 + 2) as usize;
                    let ret = pl.set_frame(k);
                    let log = LOG.with(|l| std::mem::take(&mut *l.borrow_mut()));
                    out.ev(json!({"ev":"seek","frame":k,"ret":ret,"log":log}));
                }
            }
            let len = match r.below(6) {
                0 => 0,
                1 => 1,
                2 => 2,
                3 => 3,
                _ => r.below(12) as usize,
            };
            let mut buf = vec![12345.0f64; len];
            let ret = pl.play(&mut buf);
            let log = LOG.with(|l| std::mem::take(&mut *l.borrow_mut()));
            let outi: Vec<i64> = buf.iter().map(|x| *x as i64).collect();
            out.ev(json!({"ev":"play","len":len,"ret":ret,"log":log,"out":outi}));
            calls += 1;
            let slots = if stereo { len / 2 } else { len };
            if (ret < slots * if stereo { 2 } else { 1 }) || calls > 400 {
                // the ordinary way to loop a tune: rewind once the end was reported
                if seeks < 4 && calls <= 400 && r.chance(1, 2) {
                    seeks = 4;
                    pl.rewind();
                    let log = LOG.with(|l| std::mem::take(&mut *l.borrow_mut()));
                    out.ev(json!({"ev":"seek","frame":0,"ret":true,"log":log}));
                    continue;
                }
                break;
            }
        }
    }
}

/// the real backend: the same track played under two random chunkings gives the same samples
fn real_chunkings(out: &mut Out, r: &mut Rng, count: u64) {
    for i in 0..count {
        let nf = 2 + r.below(20) as usize;
        let frames = random_frames(r, nf);
        let stereo = i % 2 == 1;
        let rate = *r.pick(&[8000usize, 11025, 22050, 44100, 48000]);
        let mut streams: Vec<Vec<i16>> = vec![];
        for pass in 0..3 {
            let mut pl = vtx::player::PrecisePlayer::new(mk_vtx(&frames, 50), rate, stereo);
            let mut all: Vec<i16> = vec![];
            loop {
                let len = match pass {
                    0 => 4096,
                    1 => 1 + r.below(7) as usize,
                    _ => *r.pick(&[1usize, 2, 3, 5, 333, 1000]),
                };
                let mut buf = vec![0i16; len];
                let ret = pl.play(&mut buf);
                all.extend(&buf[..ret]);
                let slots = if stereo { len / 2 * 2 } else { len };
                if ret < slots || all.len() > 4_000_000 {
                    break;
                }
            }
            streams.push(all);
        }
        let per_channel = streams[0].len() / if stereo { 2 } else { 1 };
        out.ev(json!({"ev":"chunkings","frames":frames.len(),"rate":rate,"stereo":stereo,"samples_per_channel":per_channel,
                      "equal": streams[0] == streams[1] && streams[0] == streams[2]}));
    }
}

/// decode of the repository's files: raw LH5 payload (decompressed here with delharc directly) against
/// the loader's frame-major result
fn decode_files(out: &mut Out) {
    use delharc::decode::{Decoder, Lh5Decoder};
    let dir = "/repo/vtx/src/test";
    let mut names: Vec<String> = std::fs::read_dir(dir).map(|d| d.filter_map(|e| e.ok()).map(|e| e.file_name().into_string().unwrap()).filter(|n| n.ends_with(".vtx")).collect()).unwrap_or_default();
    names.sort();
    for n in names {
        let data = std::fs::read(format!("{dir}/{n}")).unwrap();
        // header: 2 id, 1 stereo, 2 loop, 4 freq, 1 player freq, 2 year, 4 size, then five NUL-terminated strings
        let size = u32::from_le_bytes([data[12], data[13], data[14], data[15]]) as usize;
        let mut pos = 16;
        let mut nul = 0;
        while nul < 5 {
            if data[pos] == 0 {
                nul += 1;
            }
            pos += 1;
        }
        let mut raw = vec![0u8; size];
        let mut dec = Lh5Decoder::new(std::io::Cursor::new(&data[pos..]));
        dec.fill_buffer(&mut raw).expect("lh5");
        let v = Vtx::load(std::io::Cursor::new(&data[..])).expect("load");
        out.ev(json!({"ev":"decode","file":n,"raw":raw,"frame_data":v.frame_data}));
    }
}

/// LH5 stream that stores every byte as itself: each block declares a code tree in which all 256 literals have
/// 8-bit codes (the length tree consists of the single symbol "length 8") and no match codes
fn lh5_stored(data: &[u8]) -> Vec<u8> {
    let mut out: Vec<u8> = vec![];
    let (mut acc, mut bits) = (0u64, 0u32);
    let mut put = |v: u32, n: u32, out: &mut Vec<u8>| {
        acc = (acc << n) | v as u64;
        bits += n;
        while bits >= 8 {
            bits -= 8;
            out.push((acc >> bits) as u8);
        }
        acc &= (1u64 << bits) - 1;
    };
    for block in data.chunks(0x8000) {
        put(block.len() as u32, 16, &mut out);
        put(0, 5, &mut out);
        put(10, 5, &mut out);
        put(256, 9, &mut out);
        put(0, 4, &mut out);
        put(0, 4, &mut out);
        for b in block {
            put(*b as u32, 8, &mut out);
        }
    }
    put(0, 7, &mut out);
    out.extend([0u8; 8]);
    out
}

/// the register-major file contents of generated logs: a function of the position that the spec knows
fn raw_gen(seed: u64, j: u64) -> u8 {
    // mixed radix over primes: no period below 14 million positions (a power-of-two period would make logs of
    // 65536 frames look right when rows are confused)
    (((j % 251) * 7 + ((j / 251) % 241) * 13 + ((j / 60491) % 239) * 29 + seed) % 256) as u8
}

/// decode of generated files of any frame count (beyond the 16-bit range too): sampled positions of the
/// loader's frame-major result
fn decode_generated(out: &mut Out, r: &mut Rng) {
    for frames in [1u64, 2, 3, 14, 293, 4097, 32768, 65535, 65536, 65537, 70000, 131077] {
        let seed = r.below(200);
        let raw: Vec<u8> = (0..frames * 14).map(|j| raw_gen(seed, j)).collect();
        let mut file: Vec<u8> = b"ay".to_vec();
        file.push(1);
        file.extend(0u16.to_le_bytes());
        file.extend(1_773_400u32.to_le_bytes());
        file.push(50);
        file.extend(2024u16.to_le_bytes());
        file.extend((raw.len() as u32).to_le_bytes());
        file.extend(b"t\0a\0f\0k\0c\0");
        file.extend(lh5_stored(&raw));
        match guarded(|| Vtx::load(std::io::Cursor::new(file))) {
            Ok(Ok(v)) => {
                let n = v.frame_data.len() as u64;
                let mut samples: Vec<Value> = vec![];
                for k in 0..600u64 {
                    // the first and last positions, then random ones
                    let i = match k {
                        0..=29 => k,
                        30..=59 => n.saturating_sub(k - 29),
                        _ => r.below(n.max(1)),
                    };
                    if i < n {
                        samples.push(json!([i + 1, v.frame_data[i as usize]]));
                    }
                }
                out.ev(json!({"ev":"decodegen","frames":frames,"seed":seed,"len":n,"outcome":"ok","samples":samples}));
            }
            Ok(Err(e)) => out.ev(json!({"ev":"decodegen","frames":frames,"seed":seed,"len":0,"outcome":format!("err: {e:?}"),"samples":[]})),
            Err(p) => out.ev(json!({"ev":"decodegen","frames":frames,"seed":seed,"len":0,"outcome":format!("panic: {p}"),"samples":[]})),
        }
    }
}

pub fn run(args: &Args) {
    let mut out = Out::create(&args.str("out", "-"));
    let seed = args.num("seed", 1);
    let mut r = Rng::new(seed ^ 0xC20);
    let _ = Rc::new(0);
    player_runs(&mut out, &mut r, args.num("tracks", 10));
    real_chunkings(&mut out, &mut r, args.num("real", 0));
    if args.num("decode", 0) != 0 {
        decode_files(&mut out);
        decode_generated(&mut out, &mut r);
    }
    let n = out.finish();
    eprintln!("vtx: {n} events");
}
