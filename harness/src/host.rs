//! Host implementation used by all scenarios: recording frame buffers, scripted stopwatch,
//! programmable breakpoints, logging I/O extender and fault-injecting assets.
#![allow(dead_code)]
use rustzx_core::{
    error::IoError,
    host::{
        DataRecorder, DebugInterface, FrameBuffer, FrameBufferSource, Host, HostContext,
        IoExtender, LoadableAsset, RomFormat, RomSet, SeekFrom, SeekableAsset, Stopwatch,
    },
    zx::{
        machine::ZXMachine,
        sound::ay::ZXAYMode,
        video::colors::{ZXBrightness, ZXColor},
    },
    EmulationMode, Emulator, RustzxSettings,
};
use std::{
    cell::{Cell, RefCell},
    collections::HashSet,
    time::Duration,
};

// ---------------------------------------------------------------- frame buffer
pub struct VFrame {
    pub w: usize,
    pub h: usize,
    pub is_border: bool,
    /// colour index 0..7 plus 8 when bright
    pub px: Vec<u8>,
    pub writes: u64,
}

impl FrameBuffer for VFrame {
    type Context = ();

    fn new(w: usize, h: usize, source: FrameBufferSource, _: ()) -> Self {
        VFrame {
            w,
            h,
            is_border: matches!(source, FrameBufferSource::Border),
            px: vec![0xFF; w * h],
            writes: 0,
        }
    }

    fn set_color(&mut self, x: usize, y: usize, color: ZXColor, brightness: ZXBrightness) {
        self.writes += 1;
        self.px[y * self.w + x] = (color as u8) + 8 * (brightness as u8);
    }
}

// ---------------------------------------------------------------- stopwatch
thread_local! {
    /// Script for the stopwatch: 0 = always zero, 1 = always huge, 2 = pseudo random
    pub static SW_MODE: Cell<u32> = Cell::new(0);
    pub static SW_STATE: Cell<u64> = Cell::new(0x1234_5678);
}

pub struct VStopwatch;

impl Stopwatch for VStopwatch {
    fn new() -> Self {
        VStopwatch
    }

    fn measure(&self) -> Duration {
        match SW_MODE.with(|m| m.get()) {
            0 => Duration::from_secs(0),
            1 => Duration::from_secs(1_000_000),
            _ => {
                let s = SW_STATE.with(|s| {
                    let mut x = s.get();
                    x ^= x << 13;
                    x ^= x >> 7;
                    x ^= x << 17;
                    s.set(x);
                    x
                });
                Duration::from_micros(s % 50_000)
            }
        }
    }
}

// ---------------------------------------------------------------- debug interface
pub enum VDebug {
    Never,
    Always,
    Set(HashSet<u16>),
    /// break after every k-th instruction
    Every { k: u64, n: u64 },
}

impl DebugInterface for VDebug {
    fn check_pc_breakpoint(&mut self, addr: u16) -> bool {
        match self {
            VDebug::Never => false,
            VDebug::Always => true,
            VDebug::Set(s) => s.contains(&addr),
            VDebug::Every { k, n } => {
                *n += 1;
                if *n >= *k {
                    *n = 0;
                    true
                } else {
                    false
                }
            }
        }
    }
}

// ---------------------------------------------------------------- io extender
pub struct VExt {
    /// (mask, value): port is claimed when port & mask == value for some pair
    pub claims: Vec<(u16, u16)>,
    pub read_value: u8,
    pub reads: Vec<u16>,
    pub writes: Vec<(u16, u8)>,
}

impl VExt {
    pub fn new(claims: Vec<(u16, u16)>, read_value: u8) -> Self {
        VExt {
            claims,
            read_value,
            reads: vec![],
            writes: vec![],
        }
    }
}

impl IoExtender for VExt {
    fn write(&mut self, port: u16, data: u8) {
        self.writes.push((port, data));
    }

    fn read(&mut self, port: u16) -> u8 {
        self.reads.push(port);
        self.read_value
    }

    fn extends_port(&self, port: u16) -> bool {
        self.claims.iter().any(|(m, v)| port & m == *v)
    }
}

// ---------------------------------------------------------------- assets
#[derive(Clone, Copy, PartialEq, Eq, Debug)]
pub enum Fault {
    None,
    /// request number `k` (0-based, reads and seeks counted together) returns Err
    ErrAt(usize),
    /// request number `k` returns Ok(0) if it is a read
    ZeroAt(usize),
}

/// In-memory asset with configurable read chunking and fault injection
pub struct VAsset {
    pub data: Vec<u8>,
    pub pos: usize,
    /// maximal number of bytes handed out per read call (0 = unlimited)
    pub chunk: usize,
    pub fault: Fault,
    pub requests: usize,
    /// true: EOF is reported as Ok(0) (std::io style) instead of Err(UnexpectedEof)
    pub eof_ok0: bool,
}

impl VAsset {
    pub fn new(data: Vec<u8>) -> Self {
        VAsset {
            data,
            pos: 0,
            chunk: 0,
            fault: Fault::None,
            requests: 0,
            eof_ok0: false,
        }
    }
    pub fn chunked(mut self, chunk: usize) -> Self {
        self.chunk = chunk;
        self
    }
    pub fn with_fault(mut self, fault: Fault) -> Self {
        self.fault = fault;
        self
    }
    pub fn eof_ok0(mut self, v: bool) -> Self {
        self.eof_ok0 = v;
        self
    }
}

impl LoadableAsset for VAsset {
    fn read(&mut self, buf: &mut [u8]) -> Result<usize, IoError> {
        let k = self.requests;
        self.requests += 1;
        match self.fault {
            Fault::ErrAt(n) if n == k => return Err(IoError::HostAssetImplFailed),
            Fault::ZeroAt(n) if n == k => return Ok(0),
            _ => {}
        }
        if self.pos >= self.data.len() {
            return if self.eof_ok0 {
                Ok(0)
            } else {
                Err(IoError::UnexpectedEof)
            };
        }
        let mut n = buf.len().min(self.data.len() - self.pos);
        if self.chunk > 0 {
            n = n.min(self.chunk);
        }
        buf[..n].copy_from_slice(&self.data[self.pos..self.pos + n]);
        self.pos += n;
        Ok(n)
    }
}

impl SeekableAsset for VAsset {
    fn seek(&mut self, pos: SeekFrom) -> Result<usize, IoError> {
        let k = self.requests;
        self.requests += 1;
        if let Fault::ErrAt(n) = self.fault {
            if n == k {
                return Err(IoError::HostAssetImplFailed);
            }
        }
        let new_pos = match pos {
            SeekFrom::Start(p) => p as isize,
            SeekFrom::End(p) => self.data.len() as isize + p,
            SeekFrom::Current(p) => self.pos as isize + p,
        };
        if new_pos < 0 {
            return Err(IoError::SeekBeforeStart);
        }
        self.pos = new_pos as usize;
        Ok(self.pos)
    }
}

/// Boxed asset so that different implementations can be used as `Host::TapeAsset`
pub struct DynAsset(pub Box<dyn AssetDyn>);
pub trait AssetDyn: LoadableAsset + SeekableAsset {}
impl<T: LoadableAsset + SeekableAsset> AssetDyn for T {}

impl LoadableAsset for DynAsset {
    fn read(&mut self, buf: &mut [u8]) -> Result<usize, IoError> {
        self.0.read(buf)
    }
}
impl SeekableAsset for DynAsset {
    fn seek(&mut self, pos: SeekFrom) -> Result<usize, IoError> {
        self.0.seek(pos)
    }
}
impl DynAsset {
    pub fn mem(data: Vec<u8>) -> Self {
        DynAsset(Box::new(VAsset::new(data)))
    }
    pub fn of<T: LoadableAsset + SeekableAsset + 'static>(t: T) -> Self {
        DynAsset(Box::new(t))
    }
}

/// Recorder collecting bytes in memory (shared so the caller can read them back)
pub struct VRecorder {
    pub out: std::rc::Rc<RefCell<Vec<u8>>>,
    pub limit: usize,
}

impl DataRecorder for VRecorder {
    fn write(&mut self, buf: &[u8]) -> Result<usize, IoError> {
        let mut o = self.out.borrow_mut();
        if o.len() + buf.len() > self.limit {
            return Ok(0);
        }
        o.extend_from_slice(buf);
        Ok(buf.len())
    }
}

// ---------------------------------------------------------------- rom set
pub struct VRomSet {
    pub pages: std::collections::VecDeque<Vec<u8>>,
    /// maximal number of bytes the page assets hand out per read call (0 = unlimited)
    pub chunk: usize,
}
impl RomSet for VRomSet {
    type Asset = VAsset;
    fn format(&self) -> RomFormat {
        RomFormat::Binary16KPages
    }
    fn next_asset(&mut self) -> Option<VAsset> {
        let chunk = self.chunk;
        self.pages.pop_front().map(|p| VAsset::new(p).chunked(chunk))
    }
}

// ---------------------------------------------------------------- host
pub struct VCtx;
impl HostContext<VHost> for VCtx {
    fn frame_buffer_context(&self) {}
}

pub struct VHost;
impl Host for VHost {
    type Context = VCtx;
    type DebugInterface = VDebug;
    type EmulationStopwatch = VStopwatch;
    type FrameBuffer = VFrame;
    type IoExtender = VExt;
    type TapeAsset = DynAsset;
}

pub type Emu = Emulator<VHost>;

#[derive(Clone, Copy)]
pub struct EmuCfg {
    pub m128: bool,
    pub kempston: bool,
    pub mouse: bool,
    pub sound: bool,
    pub ay: bool,
    pub beeper: bool,
    pub rate: usize,
    pub volume: u8,
    pub ay_mode: ZXAYMode,
    pub fastload: bool,
    pub default_rom: bool,
    pub autoload: bool,
}

impl EmuCfg {
    pub fn new(m128: bool) -> Self {
        EmuCfg {
            m128,
            kempston: false,
            mouse: false,
            sound: false,
            ay: false,
            beeper: true,
            rate: 44100,
            volume: 100,
            ay_mode: ZXAYMode::Mono,
            fastload: false,
            default_rom: true,
            autoload: false,
        }
    }

    pub fn build(&self) -> Emu {
        let settings = RustzxSettings {
            machine: if self.m128 {
                ZXMachine::Sinclair128K
            } else {
                ZXMachine::Sinclair48K
            },
            emulation_mode: EmulationMode::FrameCount(1),
            tape_fastload_enabled: self.fastload,
            kempston_enabled: self.kempston,
            mouse_enabled: self.mouse,
            ay_mode: self.ay_mode,
            ay_enabled: self.ay,
            beeper_enabled: self.beeper,
            sound_enabled: self.sound,
            sound_volume: self.volume,
            sound_sample_rate: self.rate,
            load_default_rom: self.default_rom,
            autoload_enabled: self.autoload,
        };
        Emulator::new(settings, VCtx).expect("emulator construction")
    }
}

pub const FRAME_48: usize = 69888;
pub const FRAME_128: usize = 70908;

/// Single-steps exactly one `Z80::emulate` call (breakpoint on every address)
pub fn step(emu: &mut Emu) {
    emu.set_debug_interface(VDebug::Always);
    emu.set_speed(EmulationMode::FrameCount(1));
    let t0 = emu.verif_frame_clocks();
    let pc0 = emu.verif_cpu().regs.get_pc();
    let r0 = emu.verif_cpu().regs.get_r();
    let _ = emu.emulate_frames(Duration::from_secs(1000));
    // A frame that ended during the previous stop (breakpoint return, or time passed through the clock
    // hook) is handed over first, without executing anything: then the instruction is still to be run
    if emu.verif_frame_clocks() == t0 && emu.verif_cpu().regs.get_pc() == pc0 && emu.verif_cpu().regs.get_r() == r0 {
        let _ = emu.emulate_frames(Duration::from_secs(1000));
    }
}

/// Runs until `pc` is hit (checked after every instruction) or `max_frames` frames passed.
/// Returns true when the breakpoint was hit.
pub fn run_to(emu: &mut Emu, pc: u16, max_frames: usize) -> bool {
    let mut s = HashSet::new();
    s.insert(pc);
    emu.set_debug_interface(VDebug::Set(s));
    emu.set_speed(EmulationMode::FrameCount(1));
    for _ in 0..max_frames {
        match emu.emulate_frames(Duration::from_secs(1000)) {
            Ok(info) => {
                if info.stop_reason == rustzx_core::EmulationStopReason::Breakpoint {
                    return true;
                }
            }
            Err(_) => return false,
        }
    }
    false
}

/// like `run_to`, also counting the frames that were completed on the way
pub fn run_to_count(emu: &mut Emu, pc: u16, max_frames: usize) -> (bool, usize) {
    let mut s = HashSet::new();
    s.insert(pc);
    emu.set_debug_interface(VDebug::Set(s));
    emu.set_speed(EmulationMode::FrameCount(1));
    for f in 0..max_frames {
        match emu.emulate_frames(Duration::from_secs(1000)) {
            Ok(info) => {
                if info.stop_reason == rustzx_core::EmulationStopReason::Breakpoint {
                    return (true, f);
                }
            }
            Err(_) => return (false, f),
        }
    }
    (false, max_frames)
}

/// like `run_to_count` with further breakpoints on the way, from which the host simply resumes; also returns the number
/// of such stops
pub fn run_to_count_via(emu: &mut Emu, pc: u16, max_frames: usize, via: &[u16]) -> (bool, usize, usize) {
    let mut s: HashSet<u16> = via.iter().copied().collect();
    s.insert(pc);
    emu.set_debug_interface(VDebug::Set(s));
    emu.set_speed(EmulationMode::FrameCount(1));
    let (mut frames, mut stops) = (0, 0);
    while frames < max_frames && stops < 200 * (max_frames + 1) {
        match emu.emulate_frames(Duration::from_secs(1000)) {
            Ok(info) => {
                if info.stop_reason == rustzx_core::EmulationStopReason::Breakpoint {
                    if emu.verif_cpu().regs.get_pc() == pc {
                        return (true, frames, stops);
                    }
                    stops += 1;
                } else {
                    frames += 1;
                }
            }
            Err(_) => return (false, frames, stops),
        }
    }
    (false, frames, stops)
}

/// Places bytes through the CPU write path (screen copy stays coherent, ROM is not written)
pub fn poke_bytes(emu: &mut Emu, addr: u16, bytes: &[u8]) {
    for (i, b) in bytes.iter().enumerate() {
        emu.verif_bus_write(addr.wrapping_add(i as u16), *b);
    }
}
