//! C07: port decoding sweeps (every 16-bit address, reads and writes, per configuration) and
//! floating-bus reads at chosen beam positions.
use crate::host::*;
use crate::util::*;
use rustzx_core::host::Tape;
use rustzx_core::zx::{
    joy::kempston::KempstonKey,
    keys::ZXKey,
    mouse::kempston::KempstonMouseButton,
};
use rustzx_core::IterableEnum;
use serde_json::json;

const CODE: u16 = 0x8000; // ED 78 = IN A,(C) ; ED 79 = OUT (C),A

fn in_port(emu: &mut Emu, port: u16) -> u8 {
    let cpu = emu.verif_cpu();
    cpu.regs.set_bc(port);
    cpu.regs.set_pc(CODE);
    step(emu);
    emu.verif_cpu().regs.get_acc()
}
fn out_port(emu: &mut Emu, port: u16, v: u8) {
    let cpu = emu.verif_cpu();
    cpu.regs.set_bc(port);
    cpu.regs.set_acc(v);
    cpu.regs.set_pc(CODE + 2);
    step(emu);
}
/// keeps the beam in the top border / retrace so that an undriven bus reads 0xFF
fn park(emu: &mut Emu, frame: usize) {
    let t = emu.verif_frame_clocks();
    if t > 9000 {
        emu.verif_wait(frame - t + 200);
    }
}

// a fully decoded port, a low-byte pattern on odd ports, and two patterns that overlap built-in devices: 0x1xFD (the
// 128K paging latch would take it) and every port with low byte 0xFC (ULA, paging latch or AY would take it)
const EXT_CLAIMS: [(u16, u16); 4] = [(0xFFFF, 0xCCCC), (0x00FF, 0x003B), (0xF0FF, 0x10FD), (0x00FF, 0x00FC)];

fn sweep(out: &mut Out, r: &mut Rng, m128: bool, kempston: bool, mouse: bool, ext: bool, ear_high: bool, szx_mouse: Option<u8>) {
    let frame = if m128 { FRAME_128 } else { FRAME_48 };
    let mut cfg = EmuCfg::new(m128);
    cfg.kempston = kempston;
    cfg.mouse = mouse && szx_mouse.is_none();
    let mut emu = cfg.build();
    if let Some(t) = szx_mouse {
        // the device set comes from a snapshot: its mouse chunk names no mouse (0), an AMX mouse (1: nothing at the Kempston
        // mouse ports) or a Kempston mouse (2)
        use crate::files::*;
        assert_eq!(mouse, t == 2);
        let d = MachineDesc { m128, cpu: CpuDesc { pc: CODE, sp: 0xBF00, ..Default::default() }, border: 0, latch: 0, banks: vec![vec![0u8; 16384]; 8] };
        emu.load_snapshot(rustzx_core::host::Snapshot::Szx(VAsset::new(szx(&d, &SzxOpts { mouse: Some(t), ..Default::default() })))).expect("szx");
    }
    poke_bytes(&mut emu, CODE, &[0xED, 0x78, 0xED, 0x79]);
    if ext {
        emu.set_io_extender(VExt::new(EXT_CLAIMS.to_vec(), 0xE7));
    }
    // distinguishable device states
    let keys: Vec<ZXKey> = ZXKey::iter().collect();
    let held: Vec<usize> = vec![1, 5, 7, 12, 18, 21, 24, 27, 28, 31, 35, 39];
    for k in held.iter() {
        emu.send_key(keys[*k], true);
    }
    emu.send_kempston_key(KempstonKey::Right, true);
    emu.send_kempston_key(KempstonKey::Down, true);
    emu.send_kempston_key(KempstonKey::Fire, true);
    emu.send_mouse_button(KempstonMouseButton::Left, true);
    emu.send_mouse_button(KempstonMouseButton::Middle, true);
    emu.send_mouse_pos_diff(40, 17);
    if ear_high {
        // a tape whose first pilot pulse has just begun and is then stopped: EAR frozen high
        emu.load_tape(Tape::Tap(DynAsset::mem(crate::tape::tap_bytes(&[vec![0xFF, 1, 2, 0xFC]])))).unwrap();
        emu.play_tape();
        emu.verif_wait(10);
        emu.verif_wait(10);
        emu.stop_tape();
    }
    // AY: registers hold 0x40 + k (register 13 limited to its 4 bits is avoided), register 0 selected
    for k in 0..13u8 {
        out_port(&mut emu, 0xFFFD, k);
        out_port(&mut emu, 0xBFFD, 0x40 + k);
    }
    out_port(&mut emu, 0xFFFD, 0);
    out_port(&mut emu, 0x00FE, 0);
    if m128 {
        // bank markers at 0xC000: bank b holds b + 1
        for b in 0..8u8 {
            out_port(&mut emu, 0x7FFD, b);
            emu.verif_bus_write(0xC100, b + 1);
        }
        out_port(&mut emu, 0x7FFD, 0);
    }
    let mouse_regs = if mouse {
        json!([in_port(&mut emu, 0xFADF), in_port(&mut emu, 0xFBDF), in_port(&mut emu, 0xFFDF)])
    } else {
        json!([0, 0, 0])
    };
    out.ev(json!({"ev":"cfg","m": if m128 {128} else {48},"kempston":kempston,"mouse":mouse,
                  "ext": if ext { json!(EXT_CLAIMS.iter().map(|(m, v)| vec![*m, *v]).collect::<Vec<_>>()) } else { json!([]) },
                  "keys":held,"kemp":0x15,"mousereg":mouse_regs,"ayval":0x40,"extval":0xE7,"ear":ear_high,"szxmouse":szx_mouse.map(|t| t as i32).unwrap_or(-1)}));

    // ---- reads: IN A,(C) for every port, beam parked outside the picture
    let mut vals = Vec::with_capacity(65536);
    let mut extreads = vec![0u8; 65536];
    for p in 0..=0xFFFFu16 {
        park(&mut emu, frame);
        let before = emu.io_extender().map(|e| e.reads.len()).unwrap_or(0);
        vals.push(in_port(&mut emu, p));
        let after = emu.io_extender().map(|e| e.reads.len()).unwrap_or(0);
        extreads[p as usize] = (after - before) as u8;
    }
    out.ev(json!({"ev":"rdtab","vals":vals,"extreads":extreads}));

    // ---- writes: OUT (C),A of 0x0D for every port, then probes. Baseline: border 0, bank 0, AY
    // register 0 selected holding 0x40. 0x0D = border 5 / bank 5 / register 13 / data 0x0D.
    let mut effects = Vec::with_capacity(65536);
    let _ = r;
    for p in 0..=0xFFFFu16 {
        park(&mut emu, frame);
        let ext_before = emu.io_extender().map(|e| e.writes.len()).unwrap_or(0);
        out_port(&mut emu, p, 0x0D);
        let mut mask = 0u8;
        let ext_after = emu.io_extender().map(|e| e.writes.len()).unwrap_or(0);
        if ext_after != ext_before {
            mask |= 16;
        }
        if emu.border_color() as u8 != 0 {
            mask |= 1;
            out_port(&mut emu, 0x00FE, 0);
        }
        let (latch, _) = emu.verif_paging();
        if latch != 0 || emu.peek(0xC100) != if m128 { 1 } else { 0 } {
            mask |= 2;
            out_port(&mut emu, 0x7FFD, 0);
        }
        let ay = in_port(&mut emu, 0xFFFD);
        if ay == 0x0D {
            mask |= 8; // data written to the selected register
            out_port(&mut emu, 0xBFFD, 0x40);
        } else if ay != 0x40 {
            mask |= 4; // another register got selected
            out_port(&mut emu, 0xFFFD, 0);
        }
        effects.push(mask);
    }
    out.ev(json!({"ev":"wrtab","effects":effects}));
}

/// floating bus: IN from a port nothing claims at chosen beam positions, screen filled with a
/// pattern that makes every fetched byte distinguishable from its neighbours
fn floating(out: &mut Out, r: &mut Rng, m128: bool, shadow: bool, reads: u64, lock: bool) {
    let frame = if m128 { FRAME_128 } else { FRAME_48 };
    let (t0, line) = if m128 { (14361usize, 228usize) } else { (14335usize, 224usize) };
    let cfg = EmuCfg::new(m128);
    let mut emu = cfg.build();
    poke_bytes(&mut emu, CODE, &[0xED, 0x78, 0xED, 0x79]);
    let key = r.next();
    let fill = |emu: &mut Emu, base: u16, salt: u64| -> Vec<u8> {
        let v: Vec<u8> = (0..6912u64).map(|o| {
            let b = hash8(key ^ salt, o);
            if b == 0xFF { 0x7E } else { b }
        }).collect();
        for (o, b) in v.iter().enumerate() {
            emu.verif_bus_write(base + o as u16, *b);
        }
        v
    };
    let scr5 = fill(&mut emu, 0x4000, 5);
    let mut visible = scr5.clone();
    if m128 && shadow {
        out_port(&mut emu, 0x7FFD, 7);
        let scr7 = fill(&mut emu, 0xC000, 7);
        // display bank 7, bank 0 at 0xC000 (`lock`: the same write also locks the latch)
        out_port(&mut emu, 0x7FFD, if lock { 0x28 } else { 0x08 });
        visible = scr7;
    } else if m128 && lock {
        // the other way round: the shadow screen was displayed, one write selects the normal one and locks the latch
        out_port(&mut emu, 0x7FFD, 7);
        let _ = fill(&mut emu, 0xC000, 7);
        out_port(&mut emu, 0x7FFD, 0x08);
        out_port(&mut emu, 0x7FFD, 0x20);
    }
    out.ev(json!({"ev":"fcfg","m": if m128 {128} else {48},"shadow":shadow,"screen":visible}));
    for i in 0..reads {
        let t = match i % 4 {
            0 => t0 + (r.below(192) as usize) * line + r.below(140) as usize, // in and just after the fetch part
            1 => t0 - 20 + r.below(40) as usize + (r.below(192) as usize) * line,   // around the start of a line's fetch
            2 => r.below(frame as u64) as usize,
            _ => t0 + 192 * line - 30 + r.below(300) as usize, // around the end of the picture
        } % frame;
        let cur = emu.verif_frame_clocks();
        // IN A,(C) takes 12 T; the I/O cycle is its last 4 T-states
        let start = (t + frame - 8) % frame;
        let d = if start >= cur { start - cur } else { frame - cur + start };
        emu.verif_wait(d);
        let a = emu.verif_frame_clocks();
        let v = in_port(&mut emu, *r.pick(&[0x00FFu16, 0x40FF, 0x28FF, 0xFEFF]));
        let b = emu.verif_frame_clocks();
        out.ev(json!({"ev":"float","t0":a,"t1":b,"val":v}));
    }
}

/// a history of writes to arbitrary ports on a machine with the sound on: after each write the border colour and the
/// settled speaker/MIC level heard (the ULA's three write-side functions) are recorded
fn ula_writes(out: &mut Out, r: &mut Rng, m128: bool, n: u64) {
    let mut cfg = EmuCfg::new(m128);
    cfg.sound = true;
    cfg.beeper = true;
    cfg.ay = false;
    cfg.rate = 44100;
    cfg.volume = 100;
    let mut emu = cfg.build();
    poke_bytes(&mut emu, CODE, &[0xED, 0x78, 0xED, 0x79, 0x18, 0xFE]);
    {
        let c = emu.verif_cpu();
        c.regs.set_sp(0xBFF0);
        c.regs.set_iff1(false);
    }
    let settle = |emu: &mut Emu| -> i32 {
        emu.verif_cpu().regs.set_pc(CODE + 4);
        emu.set_debug_interface(VDebug::Never);
        emu.set_speed(rustzx_core::EmulationMode::FrameCount(1));
        for _ in 0..2 {
            emu.emulate_frames(std::time::Duration::from_secs(1000)).unwrap();
        }
        let mut last = f32::NAN;
        while let Some(s) = emu.next_audio_sample() {
            last = s.left;
        }
        for c in 0..4 {
            let want = (((c >> 1) & 1) as f64 * 0.5 + (c & 1) as f64 * 0.1) * 0.5;
            if (last as f64 - want).abs() < 1e-6 {
                return c;
            }
        }
        -1
    };
    out_port(&mut emu, 0x00FE, 0);
    settle(&mut emu);
    let mut ops = vec![];
    let mut prev = 0u8;
    for i in 0..n {
        let port: u16 = match r.below(4) {
            0 => ((r.u8() as u16) << 8) | 0xFE,
            1 => r.below(0x10000) as u16 & !1,
            2 => r.below(0x10000) as u16 | 1,
            _ => r.below(0x10000) as u16,
        };
        // values walk through every ordered pair of speaker/MIC settings; the other bits are arbitrary
        let val = match i % 3 {
            0 => (r.u8() & 0xE7) | (prev & 0x18) ^ [0x08, 0x10, 0x18][r.below(3) as usize],
            1 => r.u8(),
            _ => (r.u8() & 0xE7) | (prev & 0x18),
        };
        out_port(&mut emu, port, val);
        if port & 1 == 0 {
            prev = val;
        }
        let code = settle(&mut emu);
        ops.push(json!([port, val, emu.border_color() as u8, code]));
    }
    out.ev(json!({"ev":"ulawr","m": if m128 {128} else {48},"ops":ops}));
}

pub fn run(args: &Args) {
    let mut out = Out::create(&args.str("out", "-"));
    let seed = args.num("seed", 1);
    let mut r = Rng::new(seed ^ 0xC07);
    let sweeps = args.num("sweeps", 2);
    // configuration order: the first ones cover both machines and every device at least once
    let order: [(bool, bool, bool, bool); 16] = [
        (true, true, false, true), (false, false, true, false), (true, false, true, true), (false, true, false, false),
        (true, true, true, false), (false, true, true, true), (true, false, false, false), (false, false, false, true),
        (true, true, false, false), (false, false, true, true), (true, false, true, false), (false, true, false, true),
        (true, true, true, true), (false, true, true, false), (true, false, false, true), (false, false, false, false),
    ];
    let first = args.num("first", 0) as usize;
    for i in 0..sweeps as usize {
        let (m128, k, mo, ex) = order[(i + first) % 16];
        let szx_mouse = if mo { if i % 2 == 0 { Some(2) } else { None } } else { [Some(1), Some(0), None][i % 3] };
        sweep(&mut out, &mut r, m128, k, mo, ex, i % 2 == 1, szx_mouse);
    }
    let uw = args.num("ulawrites", 0);
    if uw > 0 {
        ula_writes(&mut out, &mut r, false, uw);
        ula_writes(&mut out, &mut r, true, uw);
    }
    let fl = args.num("floating", 0);
    if fl > 0 {
        floating(&mut out, &mut r, false, false, fl, false);
        floating(&mut out, &mut r, true, false, fl, false);
        floating(&mut out, &mut r, true, true, fl, false);
        floating(&mut out, &mut r, true, true, fl / 2, true);
        floating(&mut out, &mut r, true, false, fl / 2, true);
    }
    let n = out.finish();
    eprintln!("ports: {n} events");
}

#[allow(dead_code)]
pub fn debug() {
    let mut cfg = EmuCfg::new(true);
    cfg.kempston = true;
    let mut emu = cfg.build();
    poke_bytes(&mut emu, CODE, &[0xED, 0x78, 0xED, 0x79]);
    eprintln!("code {:02x} {:02x}", emu.peek(CODE), emu.peek(CODE + 1));
    let v = in_port(&mut emu, 0xFEFE);
    eprintln!("in FEFE = {:02x} pc={:04x}", v, emu.verif_cpu().regs.get_pc());
    for b in 0..8u8 {
        out_port(&mut emu, 0x7FFD, b);
        emu.verif_bus_write(0xC100, b + 1);
    }
    out_port(&mut emu, 0x7FFD, 0);
    eprintln!("code {:02x} {:02x} latch {:?}", emu.peek(CODE), emu.peek(CODE + 1), emu.verif_paging());
    let v = in_port(&mut emu, 0xFEFE);
    eprintln!("in FEFE = {:02x} pc={:04x}", v, emu.verif_cpu().regs.get_pc());
}
