//! C10 / C11 / C12: the tape player driven directly (edges in playing time, deck commands) and
//! the ROM block loader called in the real emulator (fast-loaded or in real time).
use crate::host::*;
use crate::util::*;
use rustzx_core::host::Tape;
use rustzx_core::verif::{Tap, TapeImpl};
use serde_json::{json, Value};

pub fn tap_bytes(blocks: &[Vec<u8>]) -> Vec<u8> {
    let mut v = vec![];
    for b in blocks {
        v.extend((b.len() as u16).to_le_bytes());
        v.extend(b);
    }
    v
}

/// well-formed block: flag, data, checksum
pub fn good_block(flag: u8, data: &[u8]) -> Vec<u8> {
    let mut b = vec![flag];
    b.extend(data);
    let x = b.iter().fold(0u8, |a, c| a ^ c);
    b.push(x);
    b
}

fn random_tape(r: &mut Rng, max_blocks: u64, header_ok: bool) -> Vec<Vec<u8>> {
    let n = 1 + r.below(max_blocks);
    (0..n)
        .map(|i| {
            // mostly short blocks; now and then one around and beyond the player's 128-byte streaming window
            let len = if r.chance(1, 6) { *r.pick(&[127usize, 128, 129, 130, 255, 256, 257, 300, 384]) } else { *r.pick(&[1usize, 2, 3, 5, 19, 40]) };
            let mut b = r.bytes(len);
            // flag byte: header (0x00, long pilot of 8063 edges) at any position, but not too often
            b[0] = if header_ok && r.chance(1, if i == 0 { 3 } else { 4 }) { 0 } else { *r.pick(&[0xFFu8, 0x01, 0x80, 0x7E]) };
            if len > 1 && r.chance(1, 2) {
                // byte values that exercise every bit position
                let k = r.below(len as u64 - 1) as usize + 1;
                b[k] = *r.pick(&[0x00u8, 0xFF, 0x80, 0x01, 0x55, 0xAA]);
            }
            b
        })
        .collect()
}

struct Deck {
    tap: Tap<DynAsset>,
    since: u64,
    level: bool,
    /// the player returned an error (or never finished) on a well-formed tape: recorded as an event, the run ends
    failed: bool,
}

impl Deck {
    fn new(blocks: &[Vec<u8>]) -> Self {
        let tap = Tap::from_asset(DynAsset::mem(tap_bytes(blocks))).expect("tap");
        let level = tap.current_bit();
        Deck { tap, since: 0, level, failed: false }
    }
    fn stopped(&self) -> bool {
        self.tap.can_fast_load()
    }
    fn fail(&mut self, out: &mut Out, detail: String) {
        if !self.failed {
            out.ev(json!({"ev":"taperr","detail":detail}));
        }
        self.failed = true;
    }
    /// one process_clocks call; emits edge / autostop events
    fn adv(&mut self, c: usize, out: &mut Out) {
        let was_playing = !self.stopped();
        if let Err(e) = self.tap.process_clocks(c) {
            self.fail(out, format!("process_clocks: {e:?}"));
            return;
        }
        let lv = self.tap.current_bit();
        if was_playing {
            self.since += c as u64;
            if lv != self.level {
                out.ev(json!({"ev":"edge","dt":self.since}));
                self.since = 0;
            }
            if self.stopped() {
                out.ev(json!({"ev":"autostop"}));
            }
        } else if lv != self.level {
            out.ev(json!({"ev":"idle","clocks":c,"changed":true}));
        }
        self.level = lv;
    }
    /// lets `t` T-states pass in steps of 0..16
    fn run(&mut self, t: u64, r: &mut Rng, out: &mut Out) {
        let mut left = t;
        while left > 0 && !self.failed {
            let c = (r.below(17)).min(left);
            self.adv(c as usize, out);
            left -= c;
        }
    }
}

/// how elapsed time is cut into process_clocks calls (the statement quantifies over all partitions
/// into steps of 1..16; 0-length calls are harmless extras)
#[derive(Clone, Copy)]
enum StepPol {
    Uniform,
    Const(u64),
    Big,
    MostlyMax,
    Machine,
}

impl StepPol {
    fn of(i: u64) -> StepPol {
        match i % 8 {
            0 | 4 => StepPol::Uniform,
            1 => StepPol::Const(16),
            2 => StepPol::Big,
            3 => StepPol::Const(1 + (i / 8) % 16),
            5 => StepPol::MostlyMax,
            6 => StepPol::Machine,
            _ => StepPol::Const(12 + (i / 8) % 5),
        }
    }
    fn next(self, r: &mut Rng) -> u64 {
        match self {
            StepPol::Uniform => r.below(17),
            StepPol::Const(k) => k,
            StepPol::Big => 12 + r.below(5),
            StepPol::MostlyMax => if r.chance(1, 8) { 1 + r.below(16) } else { 16 },
            // what the machine issues: 3/4-T cycles plus contention, never more than 8
            StepPol::Machine => [1, 3, 4, 4, 3, 7, 8, 5, 2, 6][r.below(10) as usize],
        }
    }
}

/// C11: whole tapes played from start to the automatic stop, under every step policy in turn
fn waveform(out: &mut Out, r: &mut Rng, tapes: u64) {
    let off = r.below(8);
    for ti in 0..tapes {
        let pol = StepPol::of(ti + off + 8 * r.below(16));
        let mut blocks = random_tape(r, 3, true);
        if ti % 3 == 2 {
            // (the tapes that get wound back carry a block longer than the player's window, where most of the time is spent)
            let len = *r.pick(&[129usize, 200, 256, 300, 384]);
            let mut b = r.bytes(len);
            b[0] = 0xFF;
            blocks.push(b);
        }
        out.ev(json!({"ev":"tape","blocks":blocks}));
        let mut d = Deck::new(&blocks);
        out.ev(json!({"ev":"play","was_stopped":d.stopped()}));
        d.tap.play();
        // a third of the tapes are wound back by the listener somewhere on the way (anywhere in the first pass: inside a
        // pilot, inside a long block, in a pause) and then heard from the start to the end
        if ti % 3 == 2 {
            // the moment: inside the pilot tone of a block, among its first 128 bytes (the player streams longer blocks
            // through a window of that size), or anywhere in it
            let mut start = 0u64;
            let mut spans: Vec<(u64, u64, u64, u64)> = vec![]; // start, end of pilot+sync, end of the first window, end of data
            for b in blocks.iter() {
                let pilot = if b[0] < 128 { 8063u64 } else { 3223 } * 2168 + 667 + 735;
                let bits = |bytes: &[u8]| -> u64 { bytes.iter().map(|x| 2 * (855 * x.count_zeros() as u64 + 1710 * x.count_ones() as u64)).sum() };
                let w = bits(&b[..b.len().min(128)]);
                let all = bits(b);
                spans.push((start, start + pilot, start + pilot + w, start + pilot + all));
                start += pilot + all + 3_500_000;
            }
            let (s0, s1, s2, s3) = *r.pick(&spans);
            let until = match r.below(3) {
                0 => s0 + r.below(s1 - s0),
                1 => s1 + r.below((s2 - s1).max(1)),
                _ => s0 + r.below(s3 - s0 + 3_000_000),
            };
            let mut t = 0u64;
            while t < until && !d.stopped() && !d.failed {
                let c = pol.next(r);
                d.adv(c as usize, out);
                t += c.max(1);
            }
            if !d.failed {
                out.ev(json!({"ev":"rewind"}));
                if let Err(e) = d.tap.rewind() {
                    d.fail(out, format!("rewind: {e:?}"));
                }
                d.level = d.tap.current_bit();
                d.since = 0;
                if d.stopped() && !d.failed {
                    out.ev(json!({"ev":"play","was_stopped":true}));
                    d.tap.play();
                }
            }
        }
        // another third of the listeners press PLAY again while the tape is playing (in a pilot, inside a block, in a
        // pause): it goes on playing
        let mut again: Vec<u64> = if ti % 3 == 1 {
            let total: u64 = blocks.iter().map(|b| 8063 * 2168 + 16 * 1710 * b.len() as u64 + 3_500_000).sum();
            (0..4).map(|_| r.below(total.max(1))).collect()
        } else {
            vec![]
        };
        again.sort();
        let mut t = 0u64;
        let mut guard = 0u64;
        while !d.stopped() && !d.failed {
            let c = pol.next(r) as usize;
            d.adv(c, out);
            t += c as u64;
            while !again.is_empty() && again[0] <= t && !d.stopped() {
                again.remove(0);
                out.ev(json!({"ev":"play","was_stopped":false}));
                d.tap.play();
            }
            guard += 1;
            if guard >= 200_000_000 {
                d.fail(out, "tape never ends".into());
            }
        }
        if d.failed {
            continue;
        }
        // stopped deck: level must stay frozen
        let before = d.tap.current_bit();
        for _ in 0..1000 {
            if let Err(e) = d.tap.process_clocks(r.below(17) as usize) {
                d.fail(out, format!("process_clocks while stopped: {e:?}"));
                break;
            }
        }
        out.ev(json!({"ev":"idle","clocks":8000,"changed": d.tap.current_bit() != before}));
    }
}

/// C12: random command histories at every phase of the waveform
fn commands(out: &mut Out, r: &mut Rng, histories: u64, len: u64) {
    for _ in 0..histories {
        let hdr = r.chance(1, 4);
        let blocks = random_tape(r, 2, hdr);
        out.ev(json!({"ev":"tape","blocks":blocks}));
        let mut d = Deck::new(&blocks);
        // (`started`: PLAY was pressed since the tape was inserted / wound back on a stopped deck / ran off its end;
        // `consumed`: blocks taken by the fast loader from the fresh tape since then)
        let (mut started, mut consumed) = (false, 0usize);
        // playing time since the start of the tape, while that is known (not after the fast loader took blocks)
        let mut pos: Option<u64> = Some(0);
        // where the two sync pulses of every block begin, in playing time from the start of the tape
        let mut syncs: Vec<u64> = vec![];
        {
            let mut t0 = 0u64;
            for b in blocks.iter() {
                let pilot = if b[0] < 128 { 8063u64 } else { 3223 } * 2168;
                syncs.push(t0 + pilot);
                let bits: u64 = b.iter().map(|x| 2 * (855 * x.count_zeros() as u64 + 1710 * x.count_ones() as u64)).sum();
                t0 += pilot + 667 + 735 + bits + 3_500_000;
            }
        }
        for _ in 0..len {
            if d.failed {
                break;
            }
            if d.stopped() && started && !d.tap.can_fast_load() {
                unreachable!();
            }
            match r.below(10) {
                0..=2 => {
                    out.ev(json!({"ev":"play","was_stopped":d.stopped()}));
                    d.tap.play();
                    started = true;
                }
                // PLAY on a fresh tape, straight through the pilot tone of its first block (counted in edges: every pulse is a
                // little longer than nominal) to the sync pulses - the 667 T one, the 735 T one or the first bit - and STOP there
                7 if !started && d.stopped() && consumed == 0 && r.chance(1, 2) => {
                    out.ev(json!({"ev":"play","was_stopped":true}));
                    d.tap.play();
                    started = true;
                    let want = if blocks[0][0] < 128 { 8063u64 } else { 3223 } + 1;
                    let (mut edges, mut guard) = (0u64, 0u64);
                    while edges < want && !d.stopped() && !d.failed && guard < 40_000_000 {
                        let before = d.level;
                        d.adv(1 + r.below(16) as usize, out);
                        if d.level != before {
                            edges += 1;
                        }
                        guard += 1;
                    }
                    if !d.stopped() && !d.failed {
                        d.run(r.below(667 + 735 + 900), r, out);
                        pos = None;
                        d.tap.stop();
                        out.ev(json!({"ev":"stop","stopped":d.stopped()}));
                    }
                }
                // the fast loader takes the next block of a tape that has not been started: the deck stays stopped, a later
                // PLAY goes on behind that block - unless the tape is wound back first
                6 if !started && d.stopped() && consumed < blocks.len() && r.chance(2, 3) => {
                    let ok = match d.tap.next_block() {
                        Ok(true) => {
                            loop {
                                match d.tap.next_block_byte() {
                                    Ok(Some(_)) => {}
                                    Ok(None) => break true,
                                    Err(_) => break false,
                                }
                            }
                        }
                        _ => false,
                    };
                    if !ok {
                        d.fail(out, "fast loader could not take the next block of a well-formed tape".into());
                    } else {
                        consumed += 1;
                        pos = None;
                        out.ev(json!({"ev":"fastblock"}));
                    }
                }
                3..=4 => {
                    d.tap.stop();
                    out.ev(json!({"ev":"stop","stopped":d.stopped()}));
                }
                // STOP, PLAY and STOP again shortly afterwards (inside the same pulse, the same pause, or a few pulses on)
                8 if !d.stopped() && r.chance(1, 2) => {
                    for k in 0..2 + r.below(3) {
                        d.tap.stop();
                        out.ev(json!({"ev":"stop","stopped":d.stopped()}));
                        if d.stopped() {
                            let before = d.tap.current_bit();
                            let c = r.below(3000);
                            if let Err(e) = d.tap.process_clocks(c as usize) {
                                d.fail(out, format!("process_clocks while stopped: {e:?}"));
                                break;
                            }
                            out.ev(json!({"ev":"idle","clocks":c,"changed":d.tap.current_bit() != before}));
                        }
                        out.ev(json!({"ev":"play","was_stopped":d.stopped()}));
                        d.tap.play();
                        let t = if k % 2 == 0 { r.below(600) } else { r.below(6000) };
                        d.run(t, r, out);
                        pos = pos.map(|p| p + t);
                        if d.stopped() || d.failed {
                            break;
                        }
                    }
                    if d.stopped() && !d.failed {
                        started = false;
                        consumed = 0;
                        pos = Some(0);
                    }
                }
                5 => {
                    if r.chance(1, 2) {
                        out.ev(json!({"ev":"rewind"}));
                        if let Err(e) = d.tap.rewind() {
                            d.fail(out, format!("rewind: {e:?}"));
                        }
                        d.level = d.tap.current_bit();
                        d.since = 0;
                        pos = Some(0);
                        if d.stopped() {
                            started = false;
                            consumed = 0;
                        }
                    }
                }
                _ => {
                    // time passes: short hops around pulse boundaries or long stretches
                    let t = match r.below(6) {
                        0 => r.below(40),
                        1 => r.below(3000),
                        2 => 2168 * r.below(4000),
                        3 => r.below(4_000_000),
                        4 => 7_000_000 + r.below(3_000_000),
                        _ => r.below(200_000),
                    };
                    if d.stopped() {
                        let before = d.tap.current_bit();
                        let mut left = t.min(100_000);
                        while left > 0 {
                            let c = r.below(17).min(left);
                            if let Err(e) = d.tap.process_clocks(c as usize) {
                                d.fail(out, format!("process_clocks while stopped: {e:?}"));
                                break;
                            }
                            left -= c;
                        }
                        let changed = d.tap.current_bit() != before;
                        out.ev(json!({"ev":"idle","clocks":t.min(100_000),"changed":changed}));
                        d.level = d.tap.current_bit();
                    } else {
                        d.run(t, r, out);
                        pos = pos.map(|p| p + t);
                        if d.stopped() {
                            // ran off its end: wound back by itself
                            started = false;
                            consumed = 0;
                            pos = Some(0);
                        }
                    }
                }
            }
        }
        // finally let the tape run out so that WholeTape is judged
        if d.stopped() && !d.failed {
            out.ev(json!({"ev":"play","was_stopped":true}));
            d.tap.play();
        }
        let mut guard = 0u64;
        while !d.stopped() && !d.failed {
            d.adv(r.below(17) as usize, out);
            guard += 1;
            if guard >= 400_000_000 {
                d.fail(out, "tape never ends".into());
            }
        }
    }
}

// ------------------------------------------------------------------ ROM loader requests
const CALLER: u16 = 0x5B80;

pub struct Req {
    pub a: u8,
    pub carry: bool,
    pub ix: u16,
    pub de: u16,
}

fn page_rom1(emu: &mut Emu) {
    // 128K: the 48K BASIC ROM (ROM 1) must be paged in for the loader and the trap
    poke_bytes(emu, 0x8000, &[0xED, 0x79]);
    let cpu = emu.verif_cpu();
    cpu.regs.set_bc(0x7FFD);
    cpu.regs.set_acc(0x10);
    cpu.regs.set_pc(0x8000);
    step(emu);
}

/// Issues one LD-BYTES request and runs until the routine leaves through SA/LD-RET (0x053F) or
/// `max_frames` pass. Returns the event.
fn ld_request(emu: &mut Emu, rq: &Req, prefill: Option<&[u8]>, max_frames: usize, r: &mut Rng) -> Value {
    // the window that is prepared and compared: no block of the driver has more than 702 bytes, so nothing beyond
    // 704 bytes from IX can be touched even by a request for 65535 bytes (and the window stays clear of the caller
    // stub and the stack in the printer buffer)
    let span = (rq.de as usize).min(704) + 4;
    let base = rq.ix.wrapping_sub(2);
    // destination region gets known contents (for VERIFY: the caller decides what)
    for k in 0..span {
        let a = base.wrapping_add(k as u16);
        let v = match prefill {
            Some(p) if k >= 2 && k - 2 < p.len() => p[k - 2],
            _ => hash8(0x4C44, a as u64 ^ r.0),
        };
        emu.verif_bus_write(a, v);
    }
    let before: Vec<u8> = (0..span).map(|k| emu.peek(base.wrapping_add(k as u16))).collect();
    {
        let cpu = emu.verif_cpu();
        cpu.regs.set_sp(0x5BFE); // printer buffer: away from every destination used by the driver
        cpu.regs.set_pc(CALLER);
        cpu.regs.set_af(((rq.a as u16) << 8) | if rq.carry { 1 } else { 0 });
        cpu.regs.set_ix(rq.ix);
        cpu.regs.set_de(rq.de);
        cpu.regs.set_iff1(false);
        cpu.regs.set_iff2(false);
        cpu.halted = false;
        cpu.skip_interrupt = false;
        cpu.verif_set_prefix(0);
    }
    // the caller: CALL 0x0556 in the printer buffer; the routine always leaves through SA/LD-RET,
    // which returns here with AF, IX and DE as LD-BYTES left them
    poke_bytes(emu, CALLER, &[0xCD, 0x56, 0x05]);
    // a third of the requests run under a debugger with breakpoints inside the ROM routine (its entry, the address the
    // fast-load trap watches, the edge loop, the exit) from which the host just resumes
    let via: Vec<u16> = if r.chance(1, 3) {
        [0x0556u16, 0x056B, 0x056C, 0x05E3, 0x053F, 0x0554].iter().copied().filter(|_| r.chance(1, 2)).collect()
    } else {
        vec![]
    };
    let (done, frames_taken, stops) = run_to_count_via(emu, CALLER + 3, max_frames, &via);
    let after: Vec<u8> = (0..span).map(|k| emu.peek(base.wrapping_add(k as u16))).collect();
    let cpu = emu.verif_cpu();
    json!({"ev":"ldbytes","req":{"a":rq.a,"carry":rq.carry as u8,"ix":rq.ix,"de":rq.de},
           "done":done,"carry":cpu.regs.get_flags() & 1,"ix":cpu.regs.get_ix(),"de":cpu.regs.get_de(),
           "pc":cpu.regs.get_pc(),"base":base,"before":before,"after":after,"trapdiff":[],"frames":frames_taken,"playing":false,"fast_off":false,"via":via,"stops":stops})
}

fn random_blocks_for_loader(r: &mut Rng) -> Vec<Vec<u8>> {
    let n = r.below(5);
    (0..n)
        .map(|_| {
            let dl = *r.pick(&[0usize, 1, 2, 17, 125, 126, 127, 128, 129, 253, 254, 255, 256, 257, 300, 700]);
            let data = r.bytes(dl);
            let flag = *r.pick(&[0x00u8, 0xFF, 0xFF, 0x12]);
            let mut b = good_block(flag, &data);
            // a length word of 0: a block without even a flag byte (legal in the file format; the ROM finds no byte)
            if r.chance(1, 10) {
                return vec![];
            }
            match r.below(8) {
                0 => {
                    let k = b.len() - 1;
                    b[k] ^= 0x40; // wrong checksum
                }
                1 => {
                    let k = r.below(b.len() as u64) as usize;
                    b.truncate(k.max(1)); // truncated tail
                }
                _ => {}
            }
            b
        })
        .collect()
}

fn request_for(r: &mut Rng, blk: Option<&Vec<u8>>) -> Req {
    let (flag, dl) = match blk {
        Some(b) if b.is_empty() => (0xFF, 0),
        Some(b) => (b[0], b.len().saturating_sub(2)),
        None => (0xFF, 10),
    };
    let de = match r.below(8) {
        0 => 0,
        1 => dl.saturating_sub(1),
        2 => dl + 1,
        3 => r.below(400) as usize,
        // D = 0xFF: INC D at the routine's entry sets Z and the ROM treats the flag byte as data
        4 => 0xFF00 + *r.pick(&[0usize, 1, 0x80, 0xFE, 0xFF]),
        _ => dl,
    } as u16;
    Req {
        a: if r.chance(1, 6) { flag ^ 0x01 } else { flag },
        carry: r.chance(3, 4),
        // destinations: RAM, screen, across 0xFFFF, into ROM
        ix: *r.pick(&[0x8000u16, 0x4000, 0x5800, 0xC000, 0xFFF0, 0x3FF8, 0x9ABC, 0xFE00]),
        de,
    }
}

/// C10: sequences of requests against fast-loaded tapes, including requests past the end
fn fastload(out: &mut Out, r: &mut Rng, tapes: u64, m128_too: bool) {
    let mut kept: Option<(bool, Emu)> = None;
    for ti in 0..tapes {
        let m128 = m128_too && ti % 3 == 2;
        let blocks = random_blocks_for_loader(r);
        // two tapes out of three go into the machine that has just finished with the previous one (a second tape is
        // inserted over a used-up, possibly half-read one); every third tape gets a fresh machine
        let reuse = ti % 3 != 0 && kept.as_ref().map_or(false, |(m, _)| *m == m128);
        let mut emu = if reuse {
            kept.take().unwrap().1
        } else {
            let mut cfg = EmuCfg::new(m128);
            cfg.fastload = true;
            let mut e = cfg.build();
            if m128 {
                page_rom1(&mut e);
            }
            e
        };
        // (the host's tape asset hands the file out whole, or in pieces of at most 1, 7, 100 or 512 bytes per read)
        let chunk = *r.pick(&[0usize, 0, 1, 7, 100, 512]);
        emu.load_tape(Tape::Tap(DynAsset::of(VAsset::new(tap_bytes(&blocks)).chunked(chunk)))).expect("load_tape");
        out.ev(json!({"ev":"tape","blocks":blocks,"m128":m128}));
        let extra = if r.chance(1, 4) { 0 } else { 1 + r.below(2) as usize };
        let mut k = 0usize;
        let mut rewinds = 0;
        while k < blocks.len() + extra {
            // now and then the host rewinds the (stopped) tape between two requests: the next request gets the first block
            if k > 0 && rewinds < 2 && r.chance(1, 5) {
                emu.rewind_tape().expect("rewind");
                out.ev(json!({"ev":"rewind"}));
                rewinds += 1;
                k = 0;
            }
            let blk = blocks.get(k);
            k += 1;
            let rq = request_for(r, blk);
            // VERIFY requests compare against the block's own data most of the time
            let pre: Option<Vec<u8>> = match blk {
                Some(b) if !rq.carry && r.chance(3, 4) => {
                    let first = if rq.de >> 8 == 0xFF { 0 } else { 1 };
                    let mut p: Vec<u8> = b.iter().skip(first).cloned().collect();
                    if r.chance(1, 3) && !p.is_empty() {
                        let i = r.below(p.len() as u64) as usize;
                        p[i] ^= 0x10;
                    }
                    Some(p)
                }
                _ => None,
            };
            let frames = if blk.is_some() { 50 } else { 30 };
            if blk.is_some() && r.chance(1, 6) {
                // the host switches fast loading off for a while: with the deck stopped the ROM routine gets no signal, the
                // request is not served and no block is used up
                emu.set_fast_load(false);
                let mut ev = ld_request(&mut emu, &rq, pre.as_deref(), 12, r);
                ev["fast_off"] = json!(true);
                out.ev(ev);
                emu.set_fast_load(true);
            }
            if blk.is_none() {
                // past the end: compare the trap step with fast loading on and off
                let ev = past_end_probe(&mut emu, &rq, frames, r);
                out.ev(ev);
            } else {
                let ev = ld_request(&mut emu, &rq, pre.as_deref(), frames, r);
                out.ev(ev);
            }
        }
        kept = Some((m128, emu));
    }
}

/// The fast-load shortcut is an emulator device, not Z80 code: whatever emulated time it takes, it takes the same time
/// wherever the data goes. Two fresh machines at the same moment of their frame serve the same request from the same
/// tape, one with its data in contended RAM, the other in uncontended RAM: they come back at the same moment.
fn trap_durations(out: &mut Out, r: &mut Rng, pairs: u64) {
    for pi in 0..pairs {
        let m128 = pi % 3 == 2;
        let frame = if m128 { FRAME_128 } else { FRAME_48 };
        let dl = 16 + r.below(40) as usize;
        let data = r.bytes(dl);
        let blk = good_block(0xFF, &data);
        let t = r.below(frame as u64 - 2000) as usize;
        let load = pi % 2 == 0;
        let seed = r.next();
        let mut results = vec![];
        for ix in [0x6000u16, 0x9000] {
            let mut cfg = EmuCfg::new(m128);
            cfg.fastload = true;
            let mut emu = cfg.build();
            if m128 {
                page_rom1(&mut emu);
            }
            emu.load_tape(Tape::Tap(DynAsset::mem(tap_bytes(&[blk.clone()])))).expect("load_tape");
            emu.verif_wait(t);
            // (caller and stack in uncontended RAM, so that nothing on the way back hides a difference)
            let _ = seed;
            if !load {
                for (k, v) in data.iter().enumerate() {
                    emu.verif_bus_write(ix + k as u16, *v);
                }
            }
            poke_bytes(&mut emu, 0xB000, &[0xCD, 0x56, 0x05]);
            {
                let cpu = emu.verif_cpu();
                cpu.regs.set_sp(0xBFFE);
                cpu.regs.set_pc(0xB000);
                cpu.regs.set_af(0xFF00 | load as u16);
                cpu.regs.set_ix(ix);
                cpu.regs.set_de(data.len() as u16);
                cpu.regs.set_iff1(false);
                cpu.regs.set_iff2(false);
                cpu.halted = false;
            }
            let (done, frames_taken) = run_to_count(&mut emu, 0xB003, 20);
            let carry = emu.verif_cpu().regs.get_flags() & 1;
            results.push(json!([done, carry, frames_taken, emu.verif_frame_clocks()]));
        }
        out.ev(json!({"ev":"trapdur","m": if m128 {128} else {48},"t":t,"load":load,"len":data.len(),"contended":results[0],"uncontended":results[1]}));
    }
}

/// A request with no block left. The trap fires after `CP A` at 0x056A; the CPU state after that
/// step must be what the ROM code alone produces (fast loading switched off), and the request
/// must not complete successfully.
fn past_end_probe(emu: &mut Emu, rq: &Req, frames: usize, r: &mut Rng) -> Value {
    use crate::z80rec::cpu_state;
    let run_trap = |emu: &mut Emu, fast: bool| -> Value {
        emu.set_fast_load(fast);
        {
            let cpu = emu.verif_cpu();
            cpu.regs.set_sp(0x5BFE);
            cpu.regs.set_pc(0x0556);
            cpu.regs.set_af(((rq.a as u16) << 8) | if rq.carry { 1 } else { 0 });
            cpu.regs.set_af(((rq.a as u16) << 8) | if rq.carry { 1 } else { 0 });
            cpu.regs.set_ix(rq.ix);
            cpu.regs.set_de(rq.de);
            cpu.regs.set_bc(0x1234);
            cpu.regs.set_hl(0x4321);
            cpu.regs.set_iff1(false);
            cpu.regs.set_iff2(false);
            cpu.regs.set_r(0);
            cpu.regs.set_mem_ptr(0);
            cpu.regs.swap_af_alt();
            cpu.regs.set_af(0xBEEF);
            cpu.regs.swap_af_alt();
        }
        let mut guard = 0;
        while emu.verif_cpu().regs.get_pc() != 0x056B && guard < 100 {
            step(emu);
            guard += 1;
        }
        // (when the trap address is never reached the two runs differ in PC, which is reported)
        cpu_state(emu.verif_cpu())
    };
    let reference = run_trap(emu, false);
    let fast = run_trap(emu, true);
    let mut diff = vec![];
    for (k, v) in reference.as_object().unwrap() {
        if k == "r" || k == "q" {
            continue;
        }
        if fast[k] != *v {
            diff.push(json!([k, v, fast[k]]));
        }
    }
    let mut ev = ld_request(emu, rq, None, frames, r);
    ev["trapdiff"] = json!(diff);
    ev
}

/// C11 (second sentence): the ROM loader in real emulated time against a playing tape
fn romload(out: &mut Out, r: &mut Rng, tapes: u64) {
    for ti in 0..tapes {
        let m128 = ti % 3 == 2;
        // small blocks keep the run short: a data block costs ~2 s of pilot
        let n = 1 + r.below(2);
        let blocks: Vec<Vec<u8>> = (0..n)
            .map(|_| {
                let dl = *r.pick(&[1usize, 2, 17, 40]);
                let mut b = good_block(*r.pick(&[0xFFu8, 0x55]), &r.bytes(dl));
                if r.chance(1, 5) {
                    let k = b.len() - 1;
                    b[k] ^= 1;
                }
                b
            })
            .collect();
        let mut cfg = EmuCfg::new(m128);
        // fast loading enabled (the emulator's default) or not: a playing tape is read from its waveform either way
        cfg.fastload = ti % 2 == 1;
        let mut emu = cfg.build();
        if m128 {
            page_rom1(&mut emu);
        }
        // a quarter of the tapes begin with a long block that a program fetches through the fast loader - only a part of it:
        // a request shorter than the block, ending on or around a multiple of the player's 128-byte window - before the
        // listener presses PLAY and the rest is loaded in real time
        let partial = cfg.fastload && ti % 4 == 3;
        let mut blocks = blocks;
        if partial {
            let mut b = r.bytes(300);
            b[0] = 0xFF;
            blocks.insert(0, b);
        }
        emu.load_tape(Tape::Tap(DynAsset::mem(tap_bytes(&blocks)))).expect("load_tape");
        out.ev(json!({"ev":"tape","blocks":blocks,"m128":m128,"realtime":true}));
        if partial {
            let rq = Req { a: 0xFF, carry: true, ix: 0x9000, de: *r.pick(&[126u16, 126, 254, 125, 127, 10]) };
            let mut ev = ld_request(&mut emu, &rq, None, 50, r);
            ev["m"] = json!(if m128 { 128 } else { 48 });
            out.ev(ev);
            emu.set_fast_load(false);
        }
        emu.play_tape();
        for blk in blocks.iter().skip(if partial { 1 } else { 0 }) {
            let mut rq = request_for(r, Some(blk));
            if rq.de == 0 && r.chance(1, 2) {
                rq.de = blk.len().saturating_sub(2) as u16;
            }
            let pre: Option<Vec<u8>> = if !rq.carry { Some(blk.iter().skip(1).cloned().collect()) } else { None };
            // each request is issued between blocks: the loader needs the whole pilot of this block
            let mut ev = ld_request(&mut emu, &rq, pre.as_deref(), 50 * 12, r);
            ev["playing"] = json!(true);
            ev["m"] = json!(if m128 { 128 } else { 48 });
            out.ev(ev);
            // let the rest of this block and most of the pause pass before the next request:
            // wait until the EAR input has been quiet for a quarter of a second
            quiet_wait(&mut emu, r);
        }
    }
}

/// Runs an idle loop until the tape signal has not changed for ~0.25 s (we are inside the pause)
fn quiet_wait(emu: &mut Emu, _r: &mut Rng) {
    // JR $ in uncontended RAM
    poke_bytes(emu, 0x8100, &[0x18, 0xFE]);
    {
        let cpu = emu.verif_cpu();
        cpu.regs.set_pc(0x8100);
        cpu.regs.set_iff1(false);
    }
    // scan program: IN A,(0xFE) is not needed - the harness cannot see the EAR level directly, so it
    // simply lets 0.3 s pass per probe of the border-independent loader state: the pause is 1 s, the
    // longest block here lasts < 0.25 s after the sync, so 0.45 s after the loader returned we are
    // safely inside the pause whatever happened.
    emu.set_debug_interface(VDebug::Never);
    emu.set_speed(rustzx_core::EmulationMode::FrameCount(22));
    let _ = emu.emulate_frames(std::time::Duration::from_secs(1000));
}

/// C11 / C12 on the whole machine: the deck is driven through the emulator's own API while the CPU runs a program
/// of a given instruction mix (busy, NOPs, DJNZ loops, halted between interrupts); the EAR level is sampled after
/// every instruction (hook `verif_tape`), so a pulse is measured to within the longest instruction (SLACK)
fn emudeck(out: &mut Out, r: &mut Rng, runs: u64) {
    use std::collections::VecDeque;
    const SLACK: usize = 28;
    for ri in 0..runs {
        let m128 = ri % 2 == 1;
        let frame = if m128 { FRAME_128 } else { FRAME_48 };
        let mut cfg = EmuCfg::new(m128);
        cfg.default_rom = false;
        cfg.fastload = ri % 3 == 0; // (enabled or not: a playing tape is a waveform either way)
        let mut emu = cfg.build();
        // ROM: NOPs with an IM 1 handler (INC DE; EI; RET)
        let mut page = vec![0u8; 16384];
        page[0x38..0x38 + 3].copy_from_slice(&[0x13, 0xFB, 0xC9]);
        let mut pages = VecDeque::new();
        pages.push_back(page.clone());
        if m128 {
            pages.push_back(page.clone());
        }
        emu.load_rom(VRomSet { pages, chunk: 0 }).expect("rom");
        let mix = (ri / 2) % 5;
        let (prog, ei): (&[u8], bool) = match mix {
            0 => (&[0xF3, 0x18, 0xFE], false),                               // DI; JR $
            1 => (&[0xFB, 0x76, 0x18, 0xFC], true),                          // EI; HALT; JR back: halted between interrupts
            2 => (&[0, 0, 0, 0, 0, 0, 0, 0, 0, 0, 0, 0, 0, 0xC3, 0x00, 0x80], false), // NOPs; JP
            3 => (&[0x06, 0x00, 0x10, 0xFE, 0x18, 0xFA], false),             // LD B,0; DJNZ $; JR
            _ => (&[0xFB, 0x76, 0, 0, 0, 0, 0, 0, 0, 0, 0x23, 0x18, 0xF3], true), // EI; HALT; some work; back
        };
        poke_bytes(&mut emu, 0x8000, prog);
        {
            let c = emu.verif_cpu();
            c.regs.set_pc(0x8000);
            c.regs.set_sp(0xBF00);
            c.regs.set_iff1(ei);
            c.regs.set_iff2(ei);
            c.set_im(1);
        }
        emu.verif_wait(r.below(frame as u64) as usize);
        // a short tape: the pilot tones alone last 2 x 100 frames
        let nb = 1 + r.below(2);
        let blocks: Vec<Vec<u8>> = (0..nb).map(|_| {
            let n = *r.pick(&[1usize, 2, 3, 5]);
            let mut b = r.bytes(n);
            b[0] = *r.pick(&[0xFFu8, 0x80, 0xA5]);
            b
        }).collect();
        emu.load_tape(Tape::Tap(DynAsset::mem(tap_bytes(&blocks)))).expect("load_tape");
        out.ev(json!({"ev":"tape","blocks":blocks,"slack":SLACK,"emu":true,"mix":mix,"m": if m128 {128} else {48}}));
        let mut level = emu.verif_tape().0;
        let mut since = 0u64;
        let mut failed = false;
        // advance by `steps` instructions (or until the deck stops by itself, when asked to), reporting edges
        let mut advance = |emu: &mut Emu, out: &mut Out, level: &mut bool, since: &mut u64, steps: u64, until_stop: bool, failed: &mut bool| -> bool {
            let mut changed_while_stopped = false;
            for _ in 0..steps {
                let (_, stopped0) = emu.verif_tape();
                let t0 = emu.verif_frame_clocks();
                step(emu);
                let t1 = emu.verif_frame_clocks();
                let dt = if t1 >= t0 { t1 - t0 } else { t1 + frame - t0 };
                if dt > SLACK {
                    tool_error(&format!("emudeck: a step of {dt} T-states exceeds the announced measuring slack"));
                }
                let (ear, stopped1) = emu.verif_tape();
                if !stopped0 {
                    *since += dt as u64;
                    if ear != *level {
                        out.ev(json!({"ev":"edge","dt":*since}));
                        *since = 0;
                    }
                    if stopped1 {
                        out.ev(json!({"ev":"autostop"}));
                        *level = ear;
                        if until_stop {
                            return changed_while_stopped;
                        }
                    }
                } else if ear != *level {
                    changed_while_stopped = true;
                }
                *level = ear;
            }
            if until_stop {
                *failed = true;
            }
            changed_while_stopped
        };
        let play = |emu: &mut Emu, out: &mut Out| {
            out.ev(json!({"ev":"play","was_stopped":emu.verif_tape().1}));
            emu.play_tape();
        };
        // first pass, with a few commands on the way
        play(&mut emu, out);
        let per_frame = 17_800u64; // (no frame has more instructions than that: a halted CPU steps in units of 4 T)
        for _ in 0..r.below(4) {
            advance(&mut emu, out, &mut level, &mut since, r.below(60 * per_frame), false, &mut failed);
            match r.below(4) {
                0 => {
                    out.ev(json!({"ev":"stop"}));
                    emu.stop_tape();
                    let ch = advance(&mut emu, out, &mut level, &mut since, r.below(3 * per_frame), false, &mut failed);
                    out.ev(json!({"ev":"idle","clocks":0,"changed":ch}));
                    play(&mut emu, out);
                }
                1 => play(&mut emu, out), // PLAY pressed again
                2 => {
                    out.ev(json!({"ev":"rewind"}));
                    if emu.rewind_tape().is_err() {
                        out.ev(json!({"ev":"taperr","detail":"rewind_tape"}));
                        failed = true;
                    }
                    level = emu.verif_tape().0;
                    since = 0;
                    if emu.verif_tape().1 {
                        play(&mut emu, out);
                    }
                }
                _ => {
                    // stop pressed twice
                    out.ev(json!({"ev":"stop"}));
                    emu.stop_tape();
                    out.ev(json!({"ev":"stop"}));
                    emu.stop_tape();
                    play(&mut emu, out);
                }
            }
        }
        // to the end of the tape (it stops by itself), a while of silence, and the second pass
        for pass in 0..2 {
            if failed {
                break;
            }
            advance(&mut emu, out, &mut level, &mut since, 700 * per_frame, true, &mut failed);
            if failed {
                out.ev(json!({"ev":"taperr","detail":"the tape did not come to its end"}));
                break;
            }
            let ch = advance(&mut emu, out, &mut level, &mut since, 2 * per_frame, false, &mut failed);
            out.ev(json!({"ev":"idle","clocks":0,"changed":ch}));
            if pass == 0 {
                play(&mut emu, out);
            }
        }
    }
}

pub fn run(args: &Args) {
    let mut out = Out::create(&args.str("out", "-"));
    let seed = args.num("seed", 1);
    let mut r = Rng::new(seed ^ 0x7A9E);
    waveform(&mut out, &mut r, args.num("waveform", 0));
    commands(&mut out, &mut r, args.num("commands", 0), args.num("len", 12));
    fastload(&mut out, &mut r, args.num("fastload", 0), true);
    trap_durations(&mut out, &mut r, args.num("trapdur", 0));
    romload(&mut out, &mut r, args.num("romload", 0));
    emudeck(&mut out, &mut r, args.num("emudeck", 0));
    let n = out.finish();
    eprintln!("tape: {n} events");
}
