//! Small deterministic helpers shared by the scenarios
#![allow(dead_code)]
use std::io::{BufWriter, Write};

/// SplitMix64: deterministic, seedable, no dependency on crate versions
pub struct Rng(pub u64);

impl Rng {
    pub fn new(seed: u64) -> Self {
        Rng(seed.wrapping_mul(0x9E37_79B9_7F4A_7C15) ^ 0xD1B5_4A32_D192_ED03)
    }
    pub fn next(&mut self) -> u64 {
        self.0 = self.0.wrapping_add(0x9E37_79B9_7F4A_7C15);
        let mut z = self.0;
        z = (z ^ (z >> 30)).wrapping_mul(0xBF58_476D_1CE4_E5B9);
        z = (z ^ (z >> 27)).wrapping_mul(0x94D0_49BB_1331_11EB);
        z ^ (z >> 31)
    }
    /// uniform in 0..n (n > 0)
    pub fn below(&mut self, n: u64) -> u64 {
        self.next() % n
    }
    pub fn range(&mut self, lo: u64, hi_incl: u64) -> u64 {
        lo + self.below(hi_incl - lo + 1)
    }
    pub fn u8(&mut self) -> u8 {
        self.next() as u8
    }
    pub fn u16(&mut self) -> u16 {
        self.next() as u16
    }
    pub fn chance(&mut self, num: u64, den: u64) -> bool {
        self.below(den) < num
    }
    pub fn pick<'a, T>(&mut self, xs: &'a [T]) -> &'a T {
        &xs[self.below(xs.len() as u64) as usize]
    }
    /// boundary-biased byte
    pub fn byte_b(&mut self) -> u8 {
        const B: [u8; 12] = [0, 1, 2, 0x0F, 0x10, 0x7F, 0x80, 0x81, 0xFE, 0xFF, 0x55, 0xAA];
        if self.chance(1, 2) {
            *self.pick(&B)
        } else {
            self.u8()
        }
    }
    pub fn word_b(&mut self) -> u16 {
        const W: [u16; 14] = [
            0, 1, 2, 0x00FF, 0x0100, 0x0FFF, 0x1000, 0x7FFF, 0x8000, 0x8001, 0xFFFE, 0xFFFF,
            0x3FFF, 0x4000,
        ];
        if self.chance(1, 3) {
            *self.pick(&W)
        } else {
            ((self.byte_b() as u16) << 8) | self.byte_b() as u16
        }
    }
    pub fn bytes(&mut self, n: usize) -> Vec<u8> {
        (0..n).map(|_| self.u8()).collect()
    }
}

/// hash used for "marker" memory contents: value of cell `a` under key `k`
pub fn hash8(k: u64, a: u64) -> u8 {
    let mut z = k
        .wrapping_mul(0x9E37_79B9_7F4A_7C15)
        .wrapping_add(a.wrapping_mul(0xC2B2_AE3D_27D4_EB4F));
    z = (z ^ (z >> 29)).wrapping_mul(0xBF58_476D_1CE4_E5B9);
    z = (z ^ (z >> 32)).wrapping_mul(0x94D0_49BB_1331_11EB);
    (z >> 40) as u8
}

pub fn tool_error(msg: &str) -> ! {
    eprintln!("harness tool error: {msg}");
    std::process::exit(2)
}

pub struct Out {
    w: BufWriter<Box<dyn Write>>,
    pub lines: u64,
}

impl Out {
    pub fn create(path: &str) -> Self {
        let w: Box<dyn Write> = if path == "-" {
            Box::new(std::io::stdout())
        } else {
            // infrastructure failures are tool errors (exit 2), never panics: a panic of this process is read as
            // data about the code under test
            Box::new(std::fs::File::create(path).unwrap_or_else(|e| tool_error(&format!("cannot create {path}: {e}"))))
        };
        Out {
            w: BufWriter::with_capacity(1 << 20, w),
            lines: 0,
        }
    }
    pub fn ev(&mut self, v: serde_json::Value) {
        if serde_json::to_writer(&mut self.w, &v).is_err() || self.w.write_all(b"\n").is_err() {
            tool_error("cannot write the trace");
        }
        self.lines += 1;
    }
    pub fn finish(mut self) -> u64 {
        if self.w.flush().is_err() {
            tool_error("cannot write the trace");
        }
        self.lines
    }
}

/// Command-line: `--key value` pairs after the sub-command
pub struct Args(pub std::collections::HashMap<String, String>);

impl Args {
    pub fn parse(it: impl Iterator<Item = String>) -> Self {
        let v: Vec<String> = it.collect();
        let mut m = std::collections::HashMap::new();
        let mut i = 0;
        while i < v.len() {
            if let Some(k) = v[i].strip_prefix("--") {
                let val = if i + 1 < v.len() && !v[i + 1].starts_with("--") {
                    i += 1;
                    v[i].clone()
                } else {
                    "1".to_string()
                };
                m.insert(k.to_string(), val);
            }
            i += 1;
        }
        Args(m)
    }
    pub fn str(&self, k: &str, d: &str) -> String {
        self.0.get(k).cloned().unwrap_or_else(|| d.to_string())
    }
    pub fn num(&self, k: &str, d: u64) -> u64 {
        self.0
            .get(k)
            .map(|s| s.parse().expect("numeric argument"))
            .unwrap_or(d)
    }
}

pub static LAST_PANIC: std::sync::Mutex<String> = std::sync::Mutex::new(String::new());
pub static CATCHING: std::sync::atomic::AtomicBool = std::sync::atomic::AtomicBool::new(false);

/// Runs `f`, turning a panic of the code under test into data: Err(location and message)
pub fn guarded<T>(f: impl FnOnce() -> T) -> Result<T, String> {
    use std::sync::atomic::Ordering;
    CATCHING.store(true, Ordering::SeqCst);
    let r = std::panic::catch_unwind(std::panic::AssertUnwindSafe(f));
    CATCHING.store(false, Ordering::SeqCst);
    r.map_err(|_| LAST_PANIC.lock().unwrap().clone())
}
