//! C01 / C02 / C03: drives the bare `Z80` through a recording bus and writes one event per
//! `emulate()` call: complete pre-state, environment, post-state and the bus log.
use crate::util::*;
use rustzx_z80::{Z80Bus, Z80};
use serde_json::{json, Value};
use std::collections::BTreeMap;

/// memory / port contents: the same formulas as Base / IoBase in spec/Z80.tla
pub fn base_mem(seed: u32, a: u16) -> u8 {
    let o = (a % 16384) as u64;
    (((o + seed as u64) * 167 + (o / 256) * 59 + 13) % 256) as u8
}
pub fn base_io(seed: u32, p: u16) -> u8 {
    (((p as u64 + seed as u64) * 131 + (p as u64 / 256) * 37 + 7) % 256) as u8
}

pub struct RecBus {
    /// a small ROM mirrored through the whole address space (writes have no effect); None = hashed memory
    pub rom: Option<Vec<u8>>,
    pub seed: u32,
    pub mem: BTreeMap<u16, u8>,
    pub io: BTreeMap<u16, u8>,
    pub int: bool,
    pub nmi: bool,
    pub busbyte: u8,
    pub log: Vec<Value>,
}

impl RecBus {
    pub fn new(seed: u32) -> Self {
        RecBus {
            rom: None,
            seed,
            mem: BTreeMap::new(),
            io: BTreeMap::new(),
            int: false,
            nmi: false,
            busbyte: 0xFF,
            log: vec![],
        }
    }
    pub fn peek(&self, a: u16) -> u8 {
        if let Some(rom) = &self.rom {
            return rom[a as usize % rom.len()];
        }
        *self.mem.get(&a).unwrap_or(&base_mem(self.seed, a))
    }
    pub fn env(&self) -> Value {
        let poke: Vec<Value> = self.mem.iter().map(|(a, v)| json!([a, v])).collect();
        let io: Vec<Value> = self.io.iter().map(|(a, v)| json!([a, v])).collect();
        let mut e = json!({"seed": self.seed, "poke": poke, "io": io, "int": self.int, "nmi": self.nmi,
               "busbyte": self.busbyte});
        if let Some(rom) = &self.rom {
            e["rom"] = json!(rom);
        }
        e
    }
}

impl Z80Bus for RecBus {
    fn read_internal(&mut self, addr: u16) -> u8 {
        let v = self.peek(addr);
        self.log.push(json!(["rd", addr, v]));
        v
    }
    fn write_internal(&mut self, addr: u16, data: u8) {
        self.log.push(json!(["wr", addr, data]));
        if self.rom.is_none() {
            self.mem.insert(addr, data);
        }
    }
    fn wait_mreq(&mut self, addr: u16, clk: usize) {
        self.log.push(json!(["mreq", addr, clk]));
    }
    fn wait_no_mreq(&mut self, addr: u16, clk: usize) {
        self.log.push(json!(["nomreq", addr, clk]));
    }
    fn wait_internal(&mut self, clk: usize) {
        self.log.push(json!(["int", 0, clk]));
    }
    fn read_io(&mut self, port: u16) -> u8 {
        let v = *self.io.get(&port).unwrap_or(&base_io(self.seed, port));
        self.log.push(json!(["in", port, v]));
        v
    }
    fn write_io(&mut self, port: u16, data: u8) {
        self.log.push(json!(["out", port, data]));
    }
    fn read_interrupt(&mut self) -> u8 {
        self.log.push(json!(["iack", 0, self.busbyte]));
        self.busbyte
    }
    fn reti(&mut self) {}
    fn halt(&mut self, _: bool) {}
    fn int_active(&self) -> bool {
        self.int
    }
    fn nmi_active(&self) -> bool {
        self.nmi
    }
    fn pc_callback(&mut self, _: u16) {}
}

/// complete CPU state as the spec's record
pub fn cpu_state(cpu: &mut Z80) -> Value {
    let r = &mut cpu.regs;
    let (a, f, b, c, d, e, h, l) = (
        r.get_acc(),
        r.get_flags(),
        r.get_b(),
        r.get_c(),
        r.get_d(),
        r.get_e(),
        r.get_h(),
        r.get_l(),
    );
    // the alternate set is read by swapping it in and out again (pure exchanges)
    let q = r.verif_q();
    r.exx();
    let (bc_, de_, hl_) = (r.get_bc(), r.get_de(), r.get_hl());
    r.exx();
    r.swap_af_alt();
    let af_ = r.get_af();
    r.swap_af_alt();
    let im: u8 = cpu.get_im().into();
    json!({
        "a": a, "f": f, "b": b, "c": c, "d": d, "e": e, "h": h, "l": l,
        "af_": af_, "bc_": bc_, "de_": de_, "hl_": hl_,
        "ix": cpu.regs.get_ix(), "iy": cpu.regs.get_iy(), "sp": cpu.regs.get_sp(), "pc": cpu.regs.get_pc(),
        "i": cpu.regs.get_i(), "r": cpu.regs.get_r(),
        "iff1": cpu.regs.get_iff1() as u8, "iff2": cpu.regs.get_iff2() as u8, "im": im,
        "wz": cpu.regs.get_mem_ptr(), "q": q,
        "halted": cpu.halted as u8, "ei": cpu.skip_interrupt as u8, "pfx": cpu.verif_prefix(),
    })
}

pub struct CpuInit {
    pub af: u16,
    pub bc: u16,
    pub de: u16,
    pub hl: u16,
    pub af_: u16,
    pub bc_: u16,
    pub de_: u16,
    pub hl_: u16,
    pub ix: u16,
    pub iy: u16,
    pub sp: u16,
    pub pc: u16,
    pub i: u8,
    pub r: u8,
    pub iff1: bool,
    pub iff2: bool,
    pub im: u8,
    pub wz: u16,
    pub q: u8,
    pub halted: bool,
    pub ei: bool,
    pub pfx: u8,
}

impl CpuInit {
    pub fn random(r: &mut Rng) -> Self {
        CpuInit {
            af: r.word_b(),
            bc: r.word_b(),
            de: r.word_b(),
            hl: r.word_b(),
            af_: r.u16(),
            bc_: r.u16(),
            de_: r.u16(),
            hl_: r.u16(),
            ix: r.word_b(),
            iy: r.word_b(),
            sp: r.word_b(),
            pc: r.word_b(),
            i: r.byte_b(),
            r: r.byte_b(),
            iff1: r.chance(1, 2),
            iff2: r.chance(1, 2),
            im: r.below(3) as u8,
            wz: r.word_b(),
            q: if r.chance(1, 2) { 0 } else { r.u8() },
            halted: false,
            ei: false,
            pfx: 0,
        }
    }
    pub fn apply(&self, cpu: &mut Z80) {
        let g = &mut cpu.regs;
        g.set_af(self.af_);
        g.set_bc(self.bc_);
        g.set_de(self.de_);
        g.set_hl(self.hl_);
        g.exx();
        g.swap_af_alt();
        g.set_af(self.af);
        g.set_bc(self.bc);
        g.set_de(self.de);
        g.set_hl(self.hl);
        g.set_ix(self.ix);
        g.set_iy(self.iy);
        g.set_sp(self.sp);
        g.set_pc(self.pc);
        g.set_i(self.i);
        g.set_r(self.r);
        g.set_iff1(self.iff1);
        g.set_iff2(self.iff2);
        g.set_mem_ptr(self.wz);
        g.verif_set_q(self.q);
        cpu.set_im(self.im);
        cpu.halted = self.halted;
        cpu.skip_interrupt = self.ei;
        cpu.verif_set_prefix(self.pfx);
    }
}

/// one recorded call
pub fn record_step(cpu: &mut Z80, bus: &mut RecBus, out: &mut Out, tag: &str) {
    let pre = cpu_state(cpu);
    let env = bus.env();
    bus.log.clear();
    cpu.emulate(bus);
    let post = cpu_state(cpu);
    let ops = std::mem::take(&mut bus.log);
    out.ev(json!({"ev":"step","tag":tag,"pre":pre,"env":env,"post":post,"ops":ops}));
}

const PAGES: [&str; 7] = ["", "CB", "ED", "DD", "FD", "DDCB", "FDCB"];

fn place_instruction(bus: &mut RecBus, r: &mut Rng, pc: u16, page: usize, op: u8, round: u64) {
    let mut bytes: Vec<u8> = vec![];
    match page {
        0 => bytes.push(op),
        1 => bytes.extend([0xCB, op]),
        2 => bytes.extend([0xED, op]),
        3 => bytes.extend([0xDD, op]),
        4 => bytes.extend([0xFD, op]),
        5 => bytes.extend([0xDD, 0xCB, r.byte_b(), op]),
        _ => bytes.extend([0xFD, 0xCB, r.byte_b(), op]),
    }
    // operand bytes: the first four rounds walk through the boundary values of the first operand byte
    // (n = 0x00 / 0xFF / 0x7F / 0x80: carries out of the low byte, displacement signs) for every encoding;
    // later rounds are boundary-biased half of the time, otherwise whatever the base function gives
    if page < 5 {
        if round < 4 {
            bytes.push([0x00u8, 0xFF, 0x7F, 0x80][round as usize]);
            bytes.push(if round % 2 == 0 { r.byte_b() } else { [0xFFu8, 0x00, 0x3F][(round / 2) as usize % 3] });
        } else if r.chance(1, 2) {
            bytes.push(r.byte_b());
            bytes.push(r.byte_b());
        }
    }
    for (k, b) in bytes.iter().enumerate() {
        bus.mem.insert(pc.wrapping_add(k as u16), *b);
    }
}

/// C02: exhaustive control matrix. Every combination of IFF1, IFF2, IM, halted, EI-shadow,
/// pending prefix, INT and NMI levels against every instruction class that matters to the
/// sequencing rules; each case is followed by `chain` more calls with random line levels.
fn matrix(out: &mut Out, r: &mut Rng, chain: u64) {
    let classes: Vec<(&str, Vec<u8>)> = vec![
        ("nop", vec![0x00]),
        ("ei", vec![0xFB, 0x00]),
        ("di", vec![0xF3, 0x00]),
        ("eiei", vec![0xFB, 0xFB]),
        ("halt", vec![0x76]),
        ("inca", vec![0x3C]),
        ("jr", vec![0x18, 0xFE]),
        ("ddnop", vec![0xDD, 0x00]),
        ("fdinc", vec![0xFD, 0x3C]),
        ("dddd", vec![0xDD, 0xDD, 0x00]),
        ("ddfd", vec![0xDD, 0xFD, 0x23]),
        ("fded", vec![0xFD, 0xED, 0x45]),
        ("ddhalt", vec![0xDD, 0x76]),
        ("retn", vec![0xED, 0x45]),
        ("reti", vec![0xED, 0x4D]),
        ("retn2", vec![0xED, 0x7D]),
        ("im0", vec![0xED, 0x46]),
        ("im1", vec![0xED, 0x56]),
        ("im2", vec![0xED, 0x5E]),
        ("ldai", vec![0xED, 0x57]),
        ("ldar", vec![0xED, 0x5F]),
        ("ret", vec![0xC9]),
        ("call", vec![0xCD, 0x34, 0x12]),
        ("ldir", vec![0xED, 0xB0]),
        ("cb", vec![0xCB, 0x46]),
    ];
    for (name, bytes) in classes.iter() {
        for bits in 0..(2 * 2 * 3 * 2 * 2 * 4 * 2 * 2) {
            let mut b = bits;
            let mut take = |n: u32| {
                let v = b % n;
                b /= n;
                v
            };
            let (iff1, iff2, im, halted, ei, pfx, int, nmi) =
                (take(2), take(2), take(3), take(2), take(2), take(4), take(2), take(2));
            // a halted CPU sits on a HALT and has no pending prefix / EI shadow
            if halted == 1 && (*name != "halt" || pfx != 0 || ei == 1) {
                continue;
            }
            // a pending prefix always comes with the interrupt check suppressed (the fragment that
            // consumed it sets both); other combinations are unreachable
            if pfx != 0 && ei == 0 {
                continue;
            }
            let mut cpu = Z80::default();
            let mut init = CpuInit::random(r);
            init.iff1 = iff1 == 1;
            init.iff2 = iff2 == 1;
            init.im = im as u8;
            init.halted = halted == 1;
            init.ei = ei == 1;
            init.pfx = [0, 0xDD, 0xFD, 0xED][pfx as usize];
            let busbyte = *r.pick(&[0x00u8, 0xFF, 0xFE, 0x37]);
            // IM 2: in half of the cases the stack lies on the vector table, so that the two bytes pushed by the
            // acknowledge are (part of) the word the new PC is read from - the order of the four bus cycles matters
            if im == 2 && r.chance(1, 2) {
                let v = ((init.i as u16) << 8) | busbyte as u16;
                init.sp = v.wrapping_add(r.below(5) as u16);
            }
            init.apply(&mut cpu);
            let mut bus = RecBus::new(r.below(1 << 20) as u32);
            for (k, v) in bytes.iter().enumerate() {
                bus.mem.insert(init.pc.wrapping_add(k as u16), *v);
            }
            bus.int = int == 1;
            bus.nmi = nmi == 1;
            bus.busbyte = busbyte;
            let tag = format!("M:{name}:{iff1}{iff2}{im}{halted}{ei}{pfx}{int}{nmi}/0");
            record_step(&mut cpu, &mut bus, out, &tag);
            for k in 0..chain {
                bus.int = r.chance(1, 2);
                bus.nmi = r.chance(1, 6);
                if bus.mem.len() > 24 {
                    break;
                }
                let tag = format!("M:{name}:{iff1}{iff2}{im}{halted}{ei}{pfx}{int}{nmi}/0+{}", k + 1);
                record_step(&mut cpu, &mut bus, out, &tag);
            }
        }
    }
}

/// spec -> impl: behaviours generated by TLC (GenZ80MC) replayed on the real CPU
fn replay_mc(out: &mut Out, path: &str) {
    let text = std::fs::read_to_string(path).expect("replay file");
    for (k, line) in text.lines().enumerate() {
        let v: Value = serde_json::from_str(line).unwrap();
        let rom: Vec<u8> = v["rom"].as_array().unwrap().iter().map(|x| x.as_u64().unwrap() as u8).collect();
        let mut cpu = Z80::default();
        let mut bus = RecBus::new(0);
        bus.rom = Some(rom);
        for (i, st) in v["hist"].as_array().unwrap().iter().enumerate() {
            bus.int = st[0].as_u64().unwrap() == 1;
            bus.nmi = st[1].as_u64().unwrap() == 1;
            bus.busbyte = st[2].as_u64().unwrap() as u8;
            record_step(&mut cpu, &mut bus, out, &format!("R{k}/{i}"));
        }
        let fin = cpu_state(&mut cpu);
        out.ev(json!({"ev":"mcfinal","tag":format!("R{k}"),"want":v["final"],"got":fin}));
    }
}

const BYTES_B: [u8; 28] = [
    0, 1, 2, 7, 8, 9, 0x0A, 0x0F, 0x10, 0x19, 0x1F, 0x20, 0x3F, 0x40, 0x66, 0x7E, 0x7F, 0x80, 0x81, 0x90, 0x99, 0x9A, 0xA0, 0xF0, 0xFA, 0xFE, 0xFF, 0x55,
];
const WORDS_B: [u16; 20] = [
    0, 1, 0xFF, 0x100, 0x7FF, 0x800, 0xFFF, 0x1000, 0x3FFF, 0x4000, 0x7FFF, 0x8000, 0x8001, 0xEFFF, 0xF000, 0xF001, 0xFFFE, 0xFFFF, 0x1234, 0xA5A5,
];

/// C01: exhaustive sweeps of the small operand domains (every accumulator value x the flags an instruction
/// reads; boundary pairs - or, with `full`, every pair - for two-operand arithmetic). Everything else random.
fn sweeps(out: &mut Out, r: &mut Rng, full: bool, part: u64, parts: u64) {
    let mut n = 0u64;
    let mut one = |r: &mut Rng, out: &mut Out, page: usize, op: u8, tag: &str, f: &dyn Fn(&mut CpuInit, &mut RecBus)| {
        n += 1;
        if n % parts != part {
            return;
        }
        let mut cpu = Z80::default();
        let mut init = CpuInit::random(r);
        let mut bus = RecBus::new(r.below(1 << 20) as u32);
        f(&mut init, &mut bus);
        init.apply(&mut cpu);
        place_instruction(&mut bus, r, init.pc, page, op, 99);
        record_step(&mut cpu, &mut bus, out, &format!("{}{:02X}/{}", PAGES[page], op, tag));
    };
    // flags an instruction can read: C, N, H (bits 0, 1, 4); the others random; Q equal to F or zero
    let flag_sets: Vec<u8> = (0..8u8).map(|k| (k & 1) | ((k & 2) << 0) | ((k & 4) << 2)).collect();
    for a in 0..=255u8 {
        for &fl in &flag_sets {
            for (page, op) in [(0usize, 0x27u8), (0, 0x2F), (0, 0x37), (0, 0x3F), (0, 0x07), (0, 0x0F), (0, 0x17), (0, 0x1F), (2, 0x44)] {
                // SCF/CCF depend on Q: both settings
                let qsame = (a as u32 + fl as u32) % 2 == 0;
                one(r, out, page, op, "acc", &|i, _| {
                    let f = (i.af as u8 & 0xEC) | fl;
                    i.af = (a as u16) << 8 | f as u16;
                    i.q = if qsame { f } else { 0 };
                });
            }
        }
        for c in 0..2u8 {
            // INC/DEC B, the CB page on B (rotates, shifts, BIT)
            for op in [0x04u8, 0x05] {
                one(r, out, 0, op, "incdec", &|i, _| {
                    i.bc = (a as u16) << 8 | (i.bc & 0xFF);
                    i.af = (i.af & 0xFFFE) | c as u16;
                });
            }
            for op in (0x00..0x80u8).step_by(8) {
                one(r, out, 1, op, "cb", &|i, _| {
                    i.bc = (a as u16) << 8 | (i.bc & 0xFF);
                    i.af = (i.af & 0xFFFE) | c as u16;
                });
            }
        }
    }
    // two-operand 8-bit arithmetic: A op B, A op (HL), A op n
    let all: Vec<u8> = (0..=255u8).collect();
    let bytes: &[u8] = if full { &all } else { &BYTES_B };
    for &a in bytes {
        for &b in bytes {
            for c in 0..2u16 {
                for op in (0x80..0xC0u8).step_by(8) {
                    if c == 1 && !matches!(op, 0x88 | 0x98) {
                        continue; // only ADC and SBC read the carry
                    }
                    one(r, out, 0, op, "alu", &|i, _| {
                        i.af = (a as u16) << 8 | (i.af & 0xFE) | c;
                        i.bc = (b as u16) << 8 | (i.bc & 0xFF);
                    });
                }
            }
        }
    }
    for &a in &BYTES_B {
        for &b in &BYTES_B {
            for c in 0..2u16 {
                // RLD, RRD, CPI, CPD on (HL) = b
                for op in [0x6Fu8, 0x67, 0xA1, 0xA9, 0xB1, 0xB9] {
                    one(r, out, 2, op, "hl", &|i, bus| {
                        i.af = (a as u16) << 8 | (i.af & 0xFE) | c;
                        if i.pc.wrapping_sub(i.hl) < 4 || i.hl.wrapping_sub(i.pc) < 4 {
                            i.hl = i.pc.wrapping_add(0x1000);
                        }
                        bus.mem.insert(i.hl, b);
                    });
                }
            }
            // INI / OUTI family: flags depend on the transferred byte, B and C/L
            for op in [0xA2u8, 0xA3, 0xAA, 0xAB, 0xB2, 0xB3, 0xBA, 0xBB] {
                one(r, out, 2, op, "io", &|i, bus| {
                    i.bc = (a as u16) << 8 | (i.bc & 0xFF);
                    if i.pc.wrapping_sub(i.hl) < 4 || i.hl.wrapping_sub(i.pc) < 4 {
                        i.hl = i.pc.wrapping_add(0x1000);
                    }
                    bus.mem.insert(i.hl, b);
                    bus.io.insert(i.bc, b);
                });
            }
        }
    }
    // A == (HL) selects the timing variant of CPIR / CPDR: every A against (HL) = A-1, A, A+1, with the counter at 1, 2, 0
    for a in 0..=255u8 {
        for d in [0xFFu8, 0, 1] {
            for bc in [1u16, 2, 0] {
                for op in [0xB1u8, 0xB9] {
                    one(r, out, 2, op, "cpxr", &|i, bus| {
                        i.af = (a as u16) << 8 | (i.af & 0xFF);
                        i.bc = bc;
                        if i.pc.wrapping_sub(i.hl) < 4 || i.hl.wrapping_sub(i.pc) < 4 {
                            i.hl = i.pc.wrapping_add(0x1000);
                        }
                        bus.mem.insert(i.hl, a.wrapping_add(d));
                    });
                }
            }
        }
    }
    // 16-bit arithmetic
    for &x in &WORDS_B {
        for &y in &WORDS_B {
            for c in 0..2u16 {
                for (page, op) in [(0usize, 0x09u8), (2, 0x4A), (2, 0x42), (3, 0x09), (0, 0x29), (2, 0x6A), (2, 0x62)] {
                    one(r, out, page, op, "w", &|i, _| {
                        i.hl = x;
                        i.ix = x;
                        i.bc = y;
                        i.af = (i.af & 0xFFFE) | c;
                    });
                }
            }
        }
    }
}

pub fn run(args: &Args) {
    let mut out = Out::create(&args.str("out", "-"));
    let rp = args.str("replaymc", "");
    if !rp.is_empty() {
        replay_mc(&mut out, &rp);
        let n = out.finish();
        eprintln!("z80 replay: {n} events");
        return;
    }
    let seed = args.num("seed", 1);
    let per = args.num("per", 4); // cases per encoding
    let chain = args.num("chain", 3); // further calls after the first one
    let lines = args.num("lines", 0) != 0; // drive INT/NMI lines too
    let mut r = Rng::new(seed ^ 0x5A80);
    let only_page = args.num("page", 99) as usize;
    if args.num("matrix", 0) != 0 {
        matrix(&mut out, &mut r, chain);
    }
    if args.num("sweeps", 0) != 0 {
        sweeps(&mut out, &mut r, args.num("sweeps", 0) == 2, args.num("part", 0), args.num("parts", 1).max(1));
    }

    for round in 0..per {
        for page in 0..7 {
            if only_page != 99 && page != only_page {
                continue;
            }
            for op in 0..=255u8 {
                // prefixes are not opcodes of the main page / the DD,FD pages; prefix chains are
                // generated below as their own cases
                let mut cpu = Z80::default();
                let mut init = CpuInit::random(&mut r);
                // counters that select a timing / termination variant (B, BC = 1, 2; A = (HL)) are hit on purpose
                match round % 4 {
                    1 => init.bc = 0x0001,
                    2 => init.bc = 0x0002,
                    3 => init.bc = 0x0100 | (init.bc & 0xFF),
                    _ => {}
                }
                init.apply(&mut cpu);
                let mut bus = RecBus::new(r.below(1 << 20) as u32);
                place_instruction(&mut bus, &mut r, init.pc, page, op, round);
                if round % 4 == 2 && !bus.mem.contains_key(&init.hl) {
                    bus.mem.insert(init.hl, (init.af >> 8) as u8);
                }
                // operand cells with boundary values
                if r.chance(1, 2) {
                    for a in [init.hl, init.bc, init.de, init.sp, init.sp.wrapping_add(1)] {
                        if r.chance(1, 2) && !bus.mem.contains_key(&a) {
                            bus.mem.insert(a, r.byte_b());
                        }
                    }
                }
                if r.chance(1, 4) {
                    bus.io.insert(init.bc, r.byte_b());
                }
                if lines {
                    bus.int = r.chance(1, 3);
                    bus.nmi = r.chance(1, 8);
                    bus.busbyte = if r.chance(1, 2) { 0xFF } else { r.u8() };
                }
                let tag = format!("{}{:02X}/{}", PAGES[page], op, round);
                record_step(&mut cpu, &mut bus, &mut out, &tag);
                for k in 0..chain {
                    if lines {
                        bus.int = r.chance(1, 3);
                        bus.nmi = r.chance(1, 10);
                    }
                    // keep the overlay small: it is part of every event
                    if bus.mem.len() > 24 {
                        break;
                    }
                    let tag = format!("{}{:02X}/{}+{}", PAGES[page], op, round, k + 1);
                    record_step(&mut cpu, &mut bus, &mut out, &tag);
                }
            }
        }
    }
    let n = out.finish();
    eprintln!("z80: {n} events");
}
