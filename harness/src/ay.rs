//! C18: the AY core observed tick by tick (level indices through the verification hook), its
//! analog output (frequency, pan, monotone volume, bounds) and the Spectrum port view.
use crate::host::*;
use crate::util::*;
use aym::{AyMode, AymBackend, AymPrecise, SoundChip};
use serde_json::{json, Value};

const CLK: usize = 1_773_400;

fn chip(mode: AyMode, rate: usize) -> AymPrecise {
    let mut ay = AymPrecise::new(SoundChip::AY, mode, CLK, rate);
    ay.verif_record_levels(true);
    ay
}
fn mode_of(i: u64) -> AyMode {
    match i {
        0 => AyMode::Mono,
        1 => AyMode::ABC,
        2 => AyMode::ACB,
        3 => AyMode::BAC,
        4 => AyMode::BCA,
        5 => AyMode::CAB,
        _ => AyMode::CBA,
    }
}
/// runs the chip until at least `ticks` chip ticks were recorded; returns the per-tick level indices
fn run_ticks(ay: &mut AymPrecise, ticks: usize) -> Vec<[u8; 3]> {
    let mut all = vec![];
    let mut guard = 0;
    while all.len() < ticks {
        ay.next_sample();
        all.extend(ay.verif_take_levels());
        guard += 1;
        assert!(guard < 50_000_000);
    }
    all
}
fn rle(v: impl Iterator<Item = u8>) -> Vec<Value> {
    let mut out: Vec<Value> = vec![];
    let mut cur: i32 = -1;
    let mut n = 0;
    for x in v {
        if x as i32 == cur {
            n += 1;
        } else {
            if n > 0 {
                out.push(json!([cur, n]));
            }
            cur = x as i32;
            n = 1;
        }
    }
    if n > 0 {
        out.push(json!([cur, n]));
    }
    out
}

pub fn run(args: &Args) {
    let mut out = Out::create(&args.str("out", "-"));
    let seed = args.num("seed", 1);
    let n = args.num("n", 20);
    let mut r = Rng::new(seed ^ 0xC18);

    // ---- tone generators
    for i in 0..n {
        let ch = (i % 3) as usize;
        let tp: u16 = match i % 6 { 0 => 0, 1 => 1, 2 => 2, 3 => 0xFFF, _ => (r.u16() & 0xFFF).max(1) >> r.below(8) };
        let vol = 1 + r.below(15) as u8;
        let mut ay = chip(AyMode::Mono, 44100);
        // garbage in the unused high nibble of the coarse register must be ignored (12-bit period)
        let hi_garbage = (r.u8() & 0xF0) | ((tp >> 8) as u8);
        ay.write_register((ch * 2) as u8, (tp & 0xFF) as u8);
        ay.write_register((ch * 2 + 1) as u8, hi_garbage);
        ay.write_register(7, 0x3F & !(1 << ch)); // tone of `ch` only
        ay.write_register(8 + ch as u8, vol);
        ay.verif_take_levels();
        let period = (tp.max(1)) as usize;
        let lv = run_ticks(&mut ay, (period * 7).clamp(200, 40_000));
        out.ev(json!({"ev":"tone","ch":ch,"r_lo":tp & 0xFF,"r_hi":hi_garbage,"vol":vol,"runs":rle(lv.iter().map(|x| x[ch])),
                      "others": lv.iter().all(|x| (0..3).all(|k| k == ch || x[k] <= 1))}));
    }
    // ---- noise generator
    for i in 0..n {
        let np: u8 = match i % 4 { 0 => 0, 1 => 1, 2 => 31, _ => r.below(32) as u8 } | (r.u8() & 0xE0);
        let ch = (i % 3) as usize;
        let mut ay = chip(AyMode::Mono, 44100);
        ay.write_register(6, np);
        ay.write_register(7, 0x3F & !(8 << ch)); // noise of `ch` only
        ay.write_register(8 + ch as u8, 15);
        ay.verif_take_levels();
        let p = ((np & 31).max(1)) as usize;
        let lv = run_ticks(&mut ay, p * 2 * 400);
        out.ev(json!({"ev":"noise","ch":ch,"r6":np,"runs":rle(lv.iter().map(|x| x[ch]))}));
    }
    // ---- envelope shapes
    for i in 0..n.max(16) {
        let shape = (i % 16) as u8 | (r.u8() & 0xF0);
        let ep: u16 = match (i / 16) % 4 { 0 => 1, 1 => 2, 2 => 0, _ => 1 + r.below(40) as u16 };
        let ch = (i % 3) as usize;
        let mut ay = chip(AyMode::Mono, 44100);
        ay.write_register(7, 0x3F); // tone and noise off: the channel shows its amplitude
        ay.write_register(8 + ch as u8, 0x10 | (r.u8() & 0x0F));
        ay.write_register(11, (ep & 0xFF) as u8);
        ay.write_register(12, (ep >> 8) as u8);
        // let some time pass, then (re)trigger the envelope
        run_ticks(&mut ay, 1 + r.below(50) as usize);
        ay.write_register(13, shape);
        ay.verif_take_levels();
        let lv = run_ticks(&mut ay, ep.max(1) as usize * 150);
        out.ev(json!({"ev":"env","ch":ch,"shape":shape,"r11":ep & 0xFF,"r12":ep >> 8,"vals":lv.iter().map(|x| x[ch]).collect::<Vec<u8>>()}));
    }
    // ---- mixer gating and volume on random register sets: per tick consistency
    for _ in 0..n {
        let mut ay = chip(AyMode::Mono, 44100);
        let mut regs = [0u8; 14];
        for (k, v) in regs.iter_mut().enumerate() {
            *v = r.u8();
            if k == 1 || k == 3 || k == 5 {
                *v &= 0x0F;
            }
            ay.write_register(k as u8, *v);
        }
        ay.verif_take_levels();
        let lv = run_ticks(&mut ay, 3000);
        // summarise: set of level indices seen per channel
        let seen: Vec<Vec<u8>> = (0..3).map(|c| {
            let mut s: Vec<u8> = lv.iter().map(|x| x[c]).collect();
            s.sort();
            s.dedup();
            s
        }).collect();
        out.ev(json!({"ev":"mix","regs":regs.to_vec(),"seen":seen}));
    }
    // ---- register histories: writes in any order interleaved with generation, every tick recorded
    for h in 0..n * 2 {
        let mut ay = chip(AyMode::Mono, *r.pick(&[44100usize, 48000, 22050]));
        let mut ops: Vec<Value> = vec![];
        let len = 10 + r.below(30);
        for k in 0..len {
            if k + 1 < len && r.chance(3, 4) {
                let reg = *r.pick(&[0u8, 1, 2, 3, 4, 5, 6, 7, 7, 7, 8, 8, 9, 9, 10, 10, 11, 12, 13, 13]);
                let val = match reg {
                    7 => r.u8(),
                    8 | 9 | 10 => if h % 2 == 0 { *r.pick(&[0u8, 0x0F, 0x10, 0x1F, 0x08]) } else { r.u8() },
                    11 => *r.pick(&[1u8, 2, 3, 5, 17]),
                    12 => 0,
                    13 => r.u8(),
                    6 => r.u8(),
                    1 | 3 | 5 => r.u8() & 0x0F,
                    _ => 1 + r.below(60) as u8,
                };
                ay.write_register(reg, val);
                ops.push(json!(["w", reg, val]));
            } else {
                ay.verif_take_levels();
                let lv = run_ticks(&mut ay, 1 + r.below(150) as usize);
                ops.push(json!(["run", lv.iter().map(|x| x.to_vec()).collect::<Vec<_>>()]));
            }
        }
        out.ev(json!({"ev":"hist","ops":ops}));
    }
    // ---- tone period written in halves, in either order, through boundary values (fine byte 0, period 0 acting as 1,
    // exact multiples of 256), each followed by more than a full period of generation
    for h in 0..n.max(8) {
        let mut ay = chip(AyMode::Mono, 44100);
        let mut ops: Vec<Value> = vec![];
        let ch = (h % 3) as u8;
        let (mut fine, mut coarse) = (0u8, 0u8);
        let mut w = |ay: &mut AymPrecise, ops: &mut Vec<Value>, reg: u8, val: u8| {
            ay.write_register(reg, val);
            ops.push(json!(["w", reg, val]));
        };
        w(&mut ay, &mut ops, 7, 0x3F & !(1 << ch));
        w(&mut ay, &mut ops, 8 + ch, 0x0F);
        for _ in 0..(3 + r.below(4)) {
            if r.chance(1, 2) {
                fine = *r.pick(&[0u8, 0, 1, 2, 0xFF, 0x80, 7]);
                w(&mut ay, &mut ops, 2 * ch, fine);
            } else {
                coarse = *r.pick(&[0u8, 0, 1, 1, 2, 0x10, 0xF1]); // (bits 4-7 are not implemented)
                w(&mut ay, &mut ops, 2 * ch + 1, coarse);
            }
            let tp = ((fine as usize) | (((coarse & 0x0F) as usize) << 8)).max(1);
            ay.verif_take_levels();
            let lv = run_ticks(&mut ay, 2 * tp + 20 + r.below(40) as usize);
            ops.push(json!(["run", lv.iter().map(|x| x.to_vec()).collect::<Vec<_>>()]));
        }
        out.ev(json!({"ev":"hist","ops":ops}));
    }
    // ---- envelope period rewritten in mid-step (no R13 write afterwards): the envelope goes on with the new period
    for h in 0..n.max(16) {
        let mut ay = chip(AyMode::Mono, 44100);
        let mut ops: Vec<Value> = vec![];
        let ch = (h % 3) as u8;
        let shape = [8u8, 10, 12, 14][(h / 3 % 4) as usize];
        let (ep1, ep2) = match h % 4 {
            0 => (17u8, 2u8),
            1 => (40, 1 + r.below(8) as u8),
            2 => (3, 40),
            _ => (1 + r.below(60) as u8, 1 + r.below(60) as u8),
        };
        let mut w = |ay: &mut AymPrecise, ops: &mut Vec<Value>, reg: u8, val: u8| {
            ay.write_register(reg, val);
            ops.push(json!(["w", reg, val]));
        };
        w(&mut ay, &mut ops, 7, 0x3F);
        w(&mut ay, &mut ops, 8 + ch, 0x10 | (r.u8() & 0x0F));
        w(&mut ay, &mut ops, 11, ep1);
        w(&mut ay, &mut ops, 12, 0);
        w(&mut ay, &mut ops, 13, shape);
        for (k, ep) in [(0u64, ep1), (1, ep2), (2, ep1), (3, ep2)] {
            if k > 0 {
                w(&mut ay, &mut ops, 11, ep);
            }
            ay.verif_take_levels();
            let lv = run_ticks(&mut ay, 1 + r.below(3 * ep1.max(ep2) as u64 + 40) as usize);
            ops.push(json!(["run", lv.iter().map(|x| x.to_vec()).collect::<Vec<_>>()]));
        }
        out.ev(json!({"ev":"hist","ops":ops}));
    }
    // ---- analog side: DAC monotone in volume, pan classes, frequency, bounds
    {
        let mut amps = vec![];
        for vol in 0..16u8 {
            let mut ay = chip(AyMode::Mono, 44100);
            ay.write_register(7, 0x3F);
            ay.write_register(8, vol);
            let mut last = 0.0;
            for _ in 0..2000 {
                last = ay.next_sample().left;
            }
            amps.push((last * 1e6) as i64);
        }
        out.ev(json!({"ev":"dac","amps":amps}));
    }
    // both chip types: the settled amplitude at each of the 32 envelope levels of a slow attack ramp, and
    // at each fixed volume ("amplitude grows strictly with the volume, or follows the envelope")
    for name in ["AY", "YM"] {
        let ch = (r.below(3)) as usize;
        let mk = || {
            let kind = if name == "YM" { SoundChip::YM } else { SoundChip::AY };
            let mut ay = AymPrecise::new(kind, AyMode::Mono, CLK, 44100);
            ay.verif_record_levels(true);
            ay.write_register(7, 0x3F);
            ay
        };
        let mut fixed = vec![];
        for vol in 0..16u8 {
            let mut ay = mk();
            ay.write_register(8 + ch as u8, vol);
            let mut last = 0.0;
            for _ in 0..2000 {
                last = ay.next_sample().left;
            }
            fixed.push((last * 1e6) as i64);
        }
        let mut ay = mk();
        let ep: u16 = 1500 + r.below(1000) as u16;
        ay.write_register(8 + ch as u8, 0x10 | (r.u8() & 0x0F));
        ay.write_register(11, (ep & 0xFF) as u8);
        ay.write_register(12, (ep >> 8) as u8);
        ay.write_register(13, 13); // attack, then hold at the top
        ay.verif_take_levels();
        let mut amps = vec![-1i64; 32];
        let (mut cur, mut held) = (255u8, 0usize);
        for _ in 0..(32 * ep as usize / 4 + 4000) {
            let v = ay.next_sample().left;
            let lv = ay.verif_take_levels();
            let Some(lvl) = lv.last().map(|x| x[ch]) else { continue };
            let steady = lv.iter().all(|x| x[ch] == lvl);
            if steady && lvl == cur {
                held += 1;
            } else {
                cur = lvl;
                held = 0;
            }
            if held >= 150 && (lvl as usize) < 32 {
                amps[lvl as usize] = (v * 1e6) as i64;
            }
        }
        out.ev(json!({"ev":"envdac","chip":name,"ch":ch,"ep":ep,"amps":amps,"fixed":fixed}));
    }
    for m in 0..7u64 {
        for ch in 0..3usize {
            let mut ay = chip(mode_of(m), 44100);
            ay.write_register(7, 0x3F);
            ay.write_register(8 + ch as u8, 15);
            let (mut l, mut rr) = (0.0, 0.0);
            for _ in 0..2000 {
                let s = ay.next_sample();
                l = s.left;
                rr = s.right;
            }
            out.ev(json!({"ev":"pan","mode":m,"ch":ch,"l":(l * 1e6) as i64,"r":(rr * 1e6) as i64}));
        }
    }
    for i in 0..n {
        let rate = *r.pick(&[8000usize, 11025, 22050, 44100, 48000, 96000, 192000, 384000]);
        // tone low enough to be far below Nyquist: f = CLK / (16 * tp) < rate / 8
        let min_tp = (CLK * 8 / (16 * rate)).max(4) as u64;
        let tp = (min_tp + r.below(3000)).min(4095) as u16;
        let ch = (i % 3) as usize;
        let mut ay = chip(mode_of(i % 7), rate);
        ay.write_register((ch * 2) as u8, (tp & 0xFF) as u8);
        ay.write_register((ch * 2 + 1) as u8, (tp >> 8) as u8);
        ay.write_register(7, 0x3F & !(1 << ch));
        ay.write_register(8 + ch as u8, 15);
        let warm = rate / 10;
        let window = rate; // one second
        let mut s: Vec<f64> = vec![];
        let mut finite = true;
        let mut maxabs = 0f64;
        for k in 0..warm + window {
            let x = ay.next_sample();
            finite &= x.left.is_finite() && x.right.is_finite();
            maxabs = maxabs.max(x.left.abs()).max(x.right.abs());
            if k >= warm {
                s.push(x.left + x.right);
            }
        }
        let mean = s.iter().sum::<f64>() / s.len() as f64;
        let crossings = s.windows(2).filter(|w| (w[0] - mean) * (w[1] - mean) < 0.0).count();
        out.ev(json!({"ev":"freq","rate":rate,"tp":tp,"window":window,"crossings":crossings,"finite":finite,"maxabs_milli":(maxabs * 1000.0) as i64}));
    }
    // ---- port view through the Spectrum
    for i in 0..n {
        let m128 = i % 2 == 1;
        let mut cfg = EmuCfg::new(m128);
        cfg.sound = true;
        cfg.ay = true;
        // the other devices of the machine are there or not (and busy): the AY ports are the AY's all the same
        cfg.mouse = i % 4 >= 2;
        cfg.kempston = i % 3 != 1;
        let mut emu = cfg.build();
        poke_bytes(&mut emu, 0x8000, &[0xED, 0x79, 0xED, 0x78]);
        let mut ops = vec![];
        for _ in 0..60 {
            if r.chance(1, 4) {
                emu.send_mouse_pos_diff(r.u8() as i8, r.u8() as i8);
                emu.send_kempston_key(rustzx_core::zx::joy::kempston::KempstonKey::Fire, r.chance(1, 2));
            }
            match r.below(3) {
                0 => {
                    let v = r.u8();
                    let port = *r.pick(&[0xFFFDu16, 0xC001, 0xFF01 & 0xFFFD, 0xFFF9]);
                    let c = emu.verif_cpu();
                    c.regs.set_bc(port);
                    c.regs.set_acc(v);
                    c.regs.set_pc(0x8000);
                    step(&mut emu);
                    ops.push(json!(["sel", v]));
                }
                1 => {
                    let v = r.u8();
                    let port = *r.pick(&[0xBFFDu16, 0x8001, 0xBF01 & 0xBFFD]);
                    let c = emu.verif_cpu();
                    c.regs.set_bc(port);
                    c.regs.set_acc(v);
                    c.regs.set_pc(0x8000);
                    step(&mut emu);
                    ops.push(json!(["dat", v]));
                }
                _ => {
                    let c = emu.verif_cpu();
                    c.regs.set_bc(*r.pick(&[0xFFFDu16, 0xFFFD, 0xC0FD, 0xFFF9, 0xE5E5]));
                    c.regs.set_pc(0x8002);
                    step(&mut emu);
                    ops.push(json!(["rd", emu.verif_cpu().regs.get_acc()]));
                }
            }
        }
        out.ev(json!({"ev":"ayport","ops":ops}));
    }
    // ---- the same chip behind the Spectrum's ports: every write of R13 restarts the envelope, also one that repeats the
    // value the register already holds. A one-shot shape (decay, then silence) is started, left to die away, and written again.
    for i in 0..n.max(8) {
        let m128 = i % 2 == 1;
        let mut cfg = EmuCfg::new(m128);
        cfg.sound = true;
        cfg.ay = true;
        let mut emu = cfg.build();
        poke_bytes(&mut emu, 0x8000, &[0xED, 0x79, 0x18, 0xFE]);
        // "register numbers wrap modulo 16": half of the programs select their registers with any upper four bits
        let hi = if i % 4 >= 2 { *r.pick(&[0x10u8, 0xF0, 0x40, 0xA0]) } else { 0 };
        let mut wr = |emu: &mut Emu, reg: u8, val: u8| {
            for (port, v) in [(0xFFFDu16, reg | hi), (0xBFFD, val)] {
                let c = emu.verif_cpu();
                c.regs.set_bc(port);
                c.regs.set_acc(v);
                c.regs.set_pc(0x8000);
                c.regs.set_iff1(false);
                step(emu);
            }
        };
        let frame_energy = |emu: &mut Emu| -> u64 {
            {
                let c = emu.verif_cpu();
                c.regs.set_pc(0x8002);
                c.regs.set_iff1(false);
            }
            emu.set_debug_interface(VDebug::Never);
            emu.set_speed(rustzx_core::EmulationMode::FrameCount(1));
            let _ = emu.emulate_frames(std::time::Duration::from_secs(100));
            let mut s = vec![];
            while let Some(x) = emu.next_audio_sample() {
                s.push(x.left as f64 + x.right as f64);
            }
            let mean = s.iter().sum::<f64>() / s.len().max(1) as f64;
            (s.iter().map(|x| (x - mean).abs()).sum::<f64>() * 1000.0) as u64
        };
        let shape = *r.pick(&[0u8, 1, 2, 3, 9, 4, 5, 6, 7, 15]); // one ramp, then silence
        let second = if i % 4 == 3 { *r.pick(&[0u8, 9, 4, 15]) } else { shape }; // mostly the very same value again
        wr(&mut emu, 7, 0x3F);
        wr(&mut emu, 8, 0x10);
        wr(&mut emu, 11, 0x00);
        wr(&mut emu, 12, 0x02);
        wr(&mut emu, 13, shape);
        let first_burst = frame_energy(&mut emu);
        let mut quiet = 0;
        for _ in 0..9 {
            quiet = frame_energy(&mut emu);
        }
        wr(&mut emu, 13, second);
        let second_burst = frame_energy(&mut emu);
        out.ev(json!({"ev":"ayretrig","m": if m128 {128} else {48},"shape":shape,"second":second,"first_burst":first_burst,"quiet":quiet,
                      "second_burst":second_burst}));
    }
    let nn = out.finish();
    eprintln!("ay: {nn} events");
}
