//! Independent writers for the snapshot / screen / tape formats, driven by abstract machine
//! descriptions (so that the code under test is never used to produce its own inputs).
#![allow(dead_code)]
use serde_json::{json, Value};

#[derive(Clone, Debug, Default)]
pub struct CpuDesc {
    pub af: u16,
    pub bc: u16,
    pub de: u16,
    pub hl: u16,
    pub af_: u16,
    pub bc_: u16,
    pub de_: u16,
    pub hl_: u16,
    pub ix: u16,
    pub iy: u16,
    pub sp: u16,
    pub pc: u16,
    pub i: u8,
    pub r: u8,
    pub iff1: bool,
    pub iff2: bool,
    pub im: u8,
}

impl CpuDesc {
    pub fn json(&self) -> Value {
        json!({"af":self.af,"bc":self.bc,"de":self.de,"hl":self.hl,"af_":self.af_,"bc_":self.bc_,"de_":self.de_,
               "hl_":self.hl_,"ix":self.ix,"iy":self.iy,"sp":self.sp,"pc":self.pc,"i":self.i,"r":self.r,
               "iff1":self.iff1 as u8,"iff2":self.iff2 as u8,"im":self.im})
    }
}

/// Machine description: 48K uses banks 5, 2, 0 (as on the 128K with latch 0)
#[derive(Clone)]
pub struct MachineDesc {
    pub m128: bool,
    pub cpu: CpuDesc,
    pub border: u8,
    pub latch: u8,
    /// eight 16K banks (48K: only 5, 2, 0 are meaningful)
    pub banks: Vec<Vec<u8>>,
}

fn sna_header(d: &MachineDesc, sp: u16) -> Vec<u8> {
    let c = &d.cpu;
    let mut h = vec![c.i];
    for w in [c.hl_, c.de_, c.bc_, c.af_, c.hl, c.de, c.bc, c.iy, c.ix] {
        h.extend(w.to_le_bytes());
    }
    h.push(if c.iff2 { 0x04 } else { 0 });
    h.push(c.r);
    h.extend(c.af.to_le_bytes());
    h.extend(sp.to_le_bytes());
    h.push(c.im);
    h.push(d.border);
    assert_eq!(h.len(), 27);
    h
}

/// 48K SNA: PC is pushed on the stack inside the RAM image
pub fn sna48(d: &MachineDesc) -> Vec<u8> {
    let sp = d.cpu.sp.wrapping_sub(2);
    let mut out = sna_header(d, sp);
    let mut ram: Vec<u8> = vec![];
    ram.extend(&d.banks[5]);
    ram.extend(&d.banks[2]);
    ram.extend(&d.banks[0]);
    for (k, b) in d.cpu.pc.to_le_bytes().iter().enumerate() {
        let a = sp.wrapping_add(k as u16);
        if a >= 0x4000 {
            ram[a as usize - 0x4000] = *b;
        }
    }
    out.extend(ram);
    out
}

/// 128K SNA: banks 5, 2, n; PC, latch, TR-DOS flag; remaining banks ascending (n in {5,2}: 8 banks follow)
pub fn sna128(d: &MachineDesc) -> Vec<u8> {
    let n = (d.latch & 7) as usize;
    let mut out = sna_header(d, d.cpu.sp);
    out.extend(&d.banks[5]);
    out.extend(&d.banks[2]);
    out.extend(&d.banks[n]);
    out.extend(d.cpu.pc.to_le_bytes());
    out.push(d.latch);
    out.push(0);
    for b in [0usize, 1, 3, 4, 6, 7] {
        if b != n {
            out.extend(&d.banks[b]);
        }
    }
    out
}

pub struct SzxOpts {
    pub compressed: bool,
    /// chunk order permutation seed (0 = canonical order)
    pub shuffle: u64,
    pub junk_chunks: bool,
    pub halted: bool,
    pub eilast: bool,
    pub ay: Option<(u8, [u8; 16])>,
    pub mouse: Option<u8>,
    pub lowercase_ids: bool,
    /// chFe of the SPCR chunk (last value written to port 0xFE); None = the border colour, MIC and EAR low
    pub fe: Option<u8>,
    /// chFlags of the AY chunk; None = 128K-style AY (2) in 48K files, 0 in 128K files
    pub ay_flags: Option<u8>,
    /// dwCyclesStart of the Z80R chunk: T-states since the start of the frame at which the snapshot was taken
    pub cycles: u32,
    /// ZXSTZF_FSET: the last instruction before the snapshot changed the flags (the Q latch holds F)
    pub fset: bool,
    /// leave the SPCR chunk (border, paging latch, port 0xFE) out: every chunk is optional
    pub no_spcr: bool,
}

impl Default for SzxOpts {
    fn default() -> Self {
        SzxOpts {
            compressed: false,
            shuffle: 0,
            junk_chunks: false,
            halted: false,
            eilast: false,
            ay: None,
            mouse: None,
            lowercase_ids: false,
            fe: None,
            ay_flags: None,
            cycles: 0,
            fset: false,
            no_spcr: false,
        }
    }
}

fn chunk(id: &[u8; 4], data: &[u8]) -> Vec<u8> {
    let mut v = id.to_vec();
    v.extend((data.len() as u32).to_le_bytes());
    v.extend(data);
    v
}

pub fn szx(d: &MachineDesc, o: &SzxOpts) -> Vec<u8> {
    let mut chunks: Vec<Vec<u8>> = vec![];
    let c = &d.cpu;
    let mut z = vec![];
    for w in [c.af, c.bc, c.de, c.hl, c.af_, c.bc_, c.de_, c.hl_, c.ix, c.iy, c.sp, c.pc] {
        z.extend(w.to_le_bytes());
    }
    z.extend([c.i, c.r, c.iff1 as u8, c.iff2 as u8, c.im]);
    z.extend(o.cycles.to_le_bytes()); // dwCyclesStart
    z.push(0); // chHoldIntReqCycles
    z.push((o.eilast as u8) | ((o.halted as u8) << 1) | ((o.fset as u8) << 2));
    z.extend(0u16.to_le_bytes()); // memptr
    chunks.push(chunk(b"Z80R", &z));
    if !o.no_spcr {
        chunks.push(chunk(b"SPCR", &[d.border, d.latch, 0, o.fe.unwrap_or(d.border), 0, 0, 0, 0]));
    }
    let pages: Vec<usize> = if d.m128 { (0..8).collect() } else { vec![5, 2, 0] };
    for p in pages {
        let mut data = vec![];
        if o.compressed {
            data.extend(1u16.to_le_bytes());
            data.push(p as u8);
            data.extend(miniz_oxide::deflate::compress_to_vec_zlib(&d.banks[p], 6));
        } else {
            data.extend(0u16.to_le_bytes());
            data.push(p as u8);
            data.extend(&d.banks[p]);
        }
        chunks.push(chunk(b"RAMP", &data));
    }
    if let Some((cur, regs)) = &o.ay {
        let mut a = vec![o.ay_flags.unwrap_or(if d.m128 { 0 } else { 2 }), *cur];
        a.extend(regs);
        chunks.push(chunk(b"AY\0\0", &a));
    }
    if let Some(t) = o.mouse {
        let mut a = vec![t];
        a.extend([0u8; 6]);
        chunks.push(chunk(b"AMXM", &a));
    }
    if o.junk_chunks {
        chunks.push(chunk(b"JUNK", &[1, 2, 3, 4, 5]));
        chunks.insert(0, chunk(b"XYZW", &[]));
    }
    if o.shuffle != 0 {
        let mut r = crate::util::Rng::new(o.shuffle);
        for i in (1..chunks.len()).rev() {
            let j = r.below(i as u64 + 1) as usize;
            chunks.swap(i, j);
        }
    }
    let mut out = b"ZXST".to_vec();
    out.extend([1, 4, if d.m128 { 2 } else { 1 }, 0]);
    for ch in chunks {
        out.extend(ch);
    }
    out
}
