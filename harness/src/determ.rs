//! C16: the same scenario (machine, ROM boot, tape, key script at frame boundaries) under different
//! host drivings; a digest of the whole machine after every completed frame.
use crate::host::*;
use crate::tape::{good_block, tap_bytes};
use crate::util::*;
use rustzx_core::host::Tape;
use rustzx_core::zx::keys::ZXKey;
use rustzx_core::{EmulationMode, EmulationStopReason, IterableEnum};
use serde_json::{json, Value};
use std::time::Duration;

fn fnv(h: &mut u64, bytes: &[u8]) {
    for b in bytes {
        *h ^= *b as u64;
        *h = h.wrapping_mul(0x100000001b3);
    }
}

fn digest(emu: &mut Emu, m128: bool) -> u64 {
    let mut h = 0xcbf29ce484222325u64;
    let st = crate::z80rec::cpu_state(emu.verif_cpu()).to_string();
    fnv(&mut h, st.as_bytes());
    fnv(&mut h, &(emu.verif_frame_clocks() as u32).to_le_bytes());
    let pages: Vec<u8> = if m128 { (0..8).collect() } else { vec![0, 1, 2] };
    for p in pages {
        fnv(&mut h, emu.verif_ram_bank(p));
    }
    fnv(&mut h, &emu.screen_buffer().px);
    fnv(&mut h, &emu.border_buffer().px);
    fnv(&mut h, &[emu.border_color() as u8]);
    let (l, e) = emu.verif_paging();
    fnv(&mut h, &[l, e as u8]);
    h
}

struct Scenario {
    m128: bool,
    tape: Vec<u8>,
    /// (frame, key index, pressed) - applied when `frame` frames have been completed
    script: Vec<(usize, usize, bool)>,
    frames: usize,
    play_at: usize,
    /// the tape is inserted with the autoload snapshot (LOAD "" already typed) and fast loading enabled
    load: bool,
    /// instead of the ROM's own life: a program that, once per frame, programs an AY register, reads it back, reads the
    /// Kempston port and a keyboard half-row (with the EAR bit) and logs all of that in RAM
    probe: bool,
    /// a program that calls the ROM's tape block routine (served by the fast-load trap) so that the jump to the trap address
    /// is the very instruction during which the frame ends, or one a few T-states beside it: number of padding NOPs
    edge: Option<usize>,
}

/// two per-instruction events at once: the frame end and the fast-load trap
fn edge_scenario(r: &mut Rng, k: u64, frames: usize) -> Scenario {
    let m128 = k % 2 == 1;
    let l0 = if m128 { 808 } else { 553 };
    Scenario { m128, tape: tap_bytes(&[good_block(0x00, &r.bytes(17))]), script: vec![], frames, play_at: usize::MAX, load: false,
               probe: false, edge: Some(l0 + r.below(4) as usize) }
}

fn scenario(r: &mut Rng, k: u64, frames: usize) -> Scenario {
    let m128 = k % 2 == 1;
    let load = k % 4 >= 2;
    let blocks = if load {
        // a BASIC program header the ROM accepts, its body, and a second pair it goes on to
        let mut h = vec![0u8];
        h.extend(b"verif     ");
        // (bodies longer than the player's 128-byte streaming window: the asset is read again in mid-block)
        h.extend([0x2C, 0x01, 0, 0x80, 0x2C, 0x01]);
        vec![good_block(0x00, &h), good_block(0xFF, &r.bytes(300)), good_block(0x00, &r.bytes(17)), good_block(0xFF, &r.bytes(200))]
    } else {
        vec![good_block(0x00, &r.bytes(17)), good_block(0xFF, &r.bytes(60))]
    };
    // keys at frames that are multiples of 4 so that every driving can cut there
    let mut script = vec![];
    let mut f = 8 + 4 * r.below(6) as usize;
    while f + 8 < frames {
        let key = r.below(40) as usize;
        script.push((f, key, true));
        script.push((f + 4, key, false));
        f += 4 * (2 + r.below(8) as usize);
    }
    // load scenarios: the tape either stays stopped until late (the ROM's request is served by the fast-load trap) or
    // plays from the start (the ROM loads in real time)
    let play_at = if load { if k % 8 >= 4 { 0 } else { 4 * (10 + r.below(10) as usize) } } else { 4 * (1 + r.below(10) as usize) };
    Scenario { m128, tape: tap_bytes(&blocks), script, frames, play_at, load, probe: !load && (k / 4) % 2 == 1, edge: None }
}

const PROBE: [u8; 42] = [
    0xF3, 0x21, 0x00, 0x90, 0x1E, 0x00, 0x7B, 0xE6, 0x0F, 0x01, 0xFD, 0xFF, 0xED, 0x79, 0x06, 0xBF, 0x7B, 0xC6, 0x55, 0xED, 0x79, 0x06,
    0xFF, 0xED, 0x78, 0x77, 0x2C, 0xDB, 0x1F, 0x77, 0x2C, 0x3E, 0x7F, 0xDB, 0xFE, 0x77, 0x2C, 0x1C, 0xFB, 0x76, 0x18, 0xDC,
];

fn build(s: &Scenario, asset: &str, sound: bool, ay: bool) -> Emu {
    let mut cfg = EmuCfg::new(s.m128);
    cfg.sound = sound;
    cfg.ay = ay;
    cfg.kempston = true;
    cfg.autoload = s.load;
    cfg.fastload = s.load || s.edge.is_some();
    let mut emu = cfg.build();
    let a: DynAsset = match asset {
        "mem" => DynAsset::mem(s.tape.clone()),
        "chunk1" => DynAsset::of(VAsset::new(s.tape.clone()).chunked(1)),
        "chunk7" => DynAsset::of(VAsset::new(s.tape.clone()).chunked(7).eof_ok0(true)),
        "file" => {
            let p = std::env::temp_dir().join(format!("vharness_{}_{}.tap", std::process::id(), s.tape.len()));
            std::fs::write(&p, &s.tape).unwrap();
            let f = std::fs::File::open(&p).unwrap();
            let _ = std::fs::remove_file(&p);
            DynAsset::of(rustzx_utils::io::FileAsset::from(f))
        }
        _ => {
            use flate2::write::GzEncoder;
            use std::io::Write;
            let mut enc = GzEncoder::new(Vec::new(), flate2::Compression::default());
            enc.write_all(&s.tape).unwrap();
            let gz = enc.finish().unwrap();
            DynAsset::of(rustzx_utils::io::GzipAsset::new(std::io::Cursor::new(gz)).unwrap())
        }
    };
    emu.load_tape(Tape::Tap(a)).unwrap();
    if let Some(l) = s.edge {
        use crate::files::*;
        // DI; LD BC,2600; (DEC BC; LD A,B; OR C; JR NZ) = 67600 - 5 T; l NOPs; LD IX,0x9000; LD DE,17; LD A,0; SCF;
        // LD HL,ret; PUSH HL; JP 0x056B - the jump starts at T = 65 + 67600 + 4 l of the first frame;
        // ret: LD A,R; LD (0x9100),A; JR $
        let mut p: Vec<u8> = vec![0xF3, 0x01, 0x28, 0x0A, 0x0B, 0x78, 0xB1, 0x20, 0xFB];
        p.extend(std::iter::repeat(0u8).take(l));
        let ret = 0x8000 + p.len() as u16 + 4 + 3 + 2 + 1 + 3 + 1 + 3;
        p.extend([0xDD, 0x21, 0x00, 0x90, 0x11, 0x11, 0x00, 0x3E, 0x00, 0x37, 0x21, ret as u8, (ret >> 8) as u8, 0xE5, 0xC3, 0x6B, 0x05]);
        assert_eq!(0x8000 + p.len() as u16, ret);
        p.extend([0xED, 0x5F, 0x32, 0x00, 0x91, 0x18, 0xFE]);
        let mut banks: Vec<Vec<u8>> = (0..8).map(|_| vec![0u8; 16384]).collect();
        banks[2][..p.len()].copy_from_slice(&p);
        let d = MachineDesc {
            m128: s.m128,
            cpu: CpuDesc { af: 0, bc: 0, de: 0, hl: 0, af_: 0, bc_: 0, de_: 0, hl_: 0, ix: 0, iy: 0x5C3A, sp: 0xBFF0, pc: 0x8000,
                           i: 0x3F, r: 0, iff1: false, iff2: false, im: 1 },
            border: 3,
            latch: 0x10,
            banks,
        };
        let bytes = if s.m128 { sna128(&d) } else { sna48(&d) };
        emu.load_snapshot(rustzx_core::host::Snapshot::Sna(VAsset::new(bytes))).unwrap();
    }
    if s.probe {
        use crate::files::*;
        let mut banks: Vec<Vec<u8>> = (0..8).map(|_| vec![0u8; 16384]).collect();
        banks[2][..PROBE.len()].copy_from_slice(&PROBE);
        let d = MachineDesc {
            m128: s.m128,
            cpu: CpuDesc { af: 0, bc: 0, de: 0, hl: 0, af_: 0, bc_: 0, de_: 0, hl_: 0, ix: 0, iy: 0x5C3A, sp: 0xBFF0, pc: 0x8000,
                           i: 0x3F, r: 0, iff1: false, iff2: false, im: 1 },
            border: 2,
            latch: 0x10,
            banks,
        };
        let bytes = if s.m128 { sna128(&d) } else { sna48(&d) };
        emu.load_snapshot(rustzx_core::host::Snapshot::Sna(VAsset::new(bytes))).unwrap();
    }
    emu
}

/// Runs the scenario under one driving; returns (frame, digest) pairs and an audio digest
fn drive(s: &Scenario, driving: &str, r: &mut Rng) -> (Vec<(usize, u64)>, u64, usize, bool) {
    let mut stuck = false;
    let keys: Vec<ZXKey> = ZXKey::iter().collect();
    let asset = match driving { "chunk1" | "chunk7" | "file" | "gzip" => driving, _ => "mem" };
    let mut emu = build(s, asset, driving != "soundoff", driving != "ayoff");
    if driving == "soundoff" {
        emu.set_sound(false);
    }
    let mut out = vec![];
    let mut done = 0usize;
    let mut audio = 0xcbf29ce484222325u64;
    let mut audio_n = 0usize;
    let mut si = 0;
    // frames at which the host must be in control: script events, tape start, and every 4th frame
    while done < s.frames {
        while si < s.script.len() && s.script[si].0 == done {
            emu.send_key(keys[s.script[si].1], s.script[si].2);
            si += 1;
        }
        if done == s.play_at {
            emu.play_tape();
        }
        // "toggles": the host flips its sound switches at run time, at frame boundaries ("whether sound generation is enabled")
        if driving == "toggles" && done % 4 == 0 {
            emu.set_sound(r.chance(1, 2));
            emu.set_ay_enabled(r.chance(1, 2));
        }
        let next_cut = (done / 4 + 1) * 4;
        let room = next_cut.min(s.frames) - done;
        // "mix": the host changes its way of driving between any two calls
        let how = if driving == "mix" { *r.pick(&["one", "n", "max1", "bp", "bpn"]) } else { driving };
        let advanced = match how {
            "n" => {
                let n = 1 + r.below(room as u64) as usize;
                emu.set_debug_interface(VDebug::Never);
                emu.set_speed(EmulationMode::FrameCount(n));
                let info = emu.emulate_frames(Duration::from_secs(100000)).unwrap();
                assert!(info.stop_reason == EmulationStopReason::Completed);
                n
            }
            "max1" => {
                // Max mode with a stopwatch that always reports a long time: one frame per call
                SW_MODE.with(|m| m.set(1));
                emu.set_debug_interface(VDebug::Never);
                emu.set_speed(EmulationMode::Max);
                let info = emu.emulate_frames(Duration::from_millis(1)).unwrap();
                SW_MODE.with(|m| m.set(0));
                assert!(info.stop_reason == EmulationStopReason::Timeout);
                1
            }
            "bpn" => {
                // several frames per call with breakpoint stops in between
                let n = 1 + r.below(room as u64) as usize;
                let k = 1 + r.below(20_000);
                emu.set_debug_interface(VDebug::Every { k, n: 0 });
                emu.set_speed(EmulationMode::FrameCount(n));
                let mut calls = 0u64;
                loop {
                    let info = emu.emulate_frames(Duration::from_secs(100000)).unwrap();
                    if info.stop_reason == EmulationStopReason::Completed {
                        break;
                    }
                    calls += 1;
                    // (a frame has fewer than 17728 instructions: more stops than that per frame means no end)
                    if calls > 2 * (n as u64 * (17_728 / k + 2) + 2) {
                        stuck = true;
                        break;
                    }
                    // a host may confirm its speed setting at any stop
                    if r.chance(1, 4) {
                        emu.set_speed(EmulationMode::FrameCount(n));
                    }
                }
                n
            }
            "bp" | "bp1" => {
                // a breakpoint every few instructions (bp1: on every instruction, so that a stop coincides with every
                // other per-instruction event); resume until the frame is reported complete
                let k = if how == "bp1" { 1 } else { 1 + r.below(400) };
                emu.set_debug_interface(VDebug::Every { k, n: 0 });
                emu.set_speed(EmulationMode::FrameCount(1));
                let mut calls = 0u64;
                loop {
                    let info = emu.emulate_frames(Duration::from_secs(100000)).unwrap();
                    if info.stop_reason == EmulationStopReason::Completed {
                        break;
                    }
                    calls += 1;
                    if calls > 2 * (17_728 / k + 4) {
                        // more breakpoint stops than a frame has T-states: the frame end was never reported
                        stuck = true;
                        break;
                    }
                }
                1
            }
            _ => {
                emu.set_debug_interface(VDebug::Never);
                emu.set_speed(EmulationMode::FrameCount(1));
                emu.emulate_frames(Duration::from_secs(100000)).unwrap();
                1
            }
        };
        done += advanced;
        if driving != "nodrain" {
            while let Some(smp) = emu.next_audio_sample() {
                if driving != "n" {
                    fnv(&mut audio, &smp.left.to_le_bytes());
                    fnv(&mut audio, &smp.right.to_le_bytes());
                    audio_n += 1;
                }
            }
        }
        out.push((done, digest(&mut emu, s.m128)));
        if stuck {
            break;
        }
    }
    (out, audio, audio_n, stuck)
}

pub fn run(args: &Args) {
    let mut out = Out::create(&args.str("out", "-"));
    let seed = args.num("seed", 1);
    let scenarios = args.num("scenarios", 2);
    let frames = args.num("frames", 100) as usize;
    let mut r = Rng::new(seed ^ 0xC16);
    let split = |d: u64| -> Value { json!([(d & 0x3FFF_FFFF) as u32, ((d >> 30) & 0x3FFF_FFFF) as u32]) };
    let base = args.num("base", 0);
    let edges = args.num("edge", 0);
    for k in (base..base + scenarios).chain(1000..1000 + edges) {
        let s = if k >= 1000 { edge_scenario(&mut r, k, 8) } else { scenario(&mut r, k, frames) };
        for driving in ["one", "one", "n", "n", "max1", "bp", "bp", "bp1", "bpn", "bpn", "mix", "mix", "soundoff", "ayoff", "toggles", "nodrain", "chunk1", "chunk7", "file", "gzip"] {
            if std::env::var("VH_DEBUG").is_ok() { eprintln!("scenario {k} driving {driving}"); }
            let (d, audio, audio_n, stuck) = drive(&s, driving, &mut r);
            let digests: Vec<Value> = d.iter().map(|(f, h)| json!([f, split(*h)])).collect();
            // audio is comparable between drivings that drain after every single frame
            let audio_cmp = matches!(driving, "one" | "max1" | "bp" | "bp1" | "chunk1" | "chunk7" | "file" | "gzip");
            out.ev(json!({"ev":"drun","scenario":k,"driving":driving,"digests":digests,
                          "audio": if audio_cmp { split(audio) } else { json!([]) }, "audio_n": audio_n, "stuck": stuck}));
        }
    }
    let n = out.finish();
    eprintln!("determ: {n} events");
}
