mod host;
mod util;
mod paging;
mod z80rec;
mod timing;
mod tape;
mod input;
mod ports;
mod files;
mod screen;
mod border;
mod snapshot;
mod vtxrec;
mod audio;
mod ay;
mod assets;
mod determ;
mod loaders;

#[global_allocator]
static ALLOC: loaders::Counting = loaders::Counting;

fn main() {
    let mut it = std::env::args().skip(1);
    let cmd = it.next().unwrap_or_default();
    let args = util::Args::parse(it);
    // panics inside the code under test are data for the scenarios that use catch_unwind: the hook
    // records where it happened; a panic outside catch_unwind still aborts the run (tool error)
    std::panic::set_hook(Box::new(|info| {
        let loc = info
            .location()
            .map(|l| format!("{}:{}", l.file().rsplit("/repo/").next().unwrap_or(l.file()), l.line()))
            .unwrap_or_default();
        let msg = if let Some(s) = info.payload().downcast_ref::<&str>() {
            s.to_string()
        } else if let Some(s) = info.payload().downcast_ref::<String>() {
            s.clone()
        } else {
            String::new()
        };
        *util::LAST_PANIC.lock().unwrap() = format!("{loc} {msg}");
        if !util::CATCHING.load(std::sync::atomic::Ordering::SeqCst) {
            eprintln!("harness panic at {loc}: {msg}");
        }
    }));
    match cmd.as_str() {
        "paging" => paging::run(&args),
        "z80" => z80rec::run(&args),
        "timing" => timing::run(&args),
        "tape" => tape::run(&args),
        "input" => input::run(&args),
        "ports" => ports::run(&args),
        "screen" => screen::run(&args),
        "border" => border::run(&args),
        "snapshot" => snapshot::run(&args),
        "vtx" => vtxrec::run(&args),
        "audio" => audio::run(&args),
        "ay" => ay::run(&args),
        "determ" => determ::run(&args),
        "assets" => assets::run(&args),
        "loaders" => loaders::run(&args),
        "portsdbg" => ports::debug(),
        _ => {
            eprintln!("unknown sub-command {cmd:?}");
            std::process::exit(2);
        }
    }
}
