//! C06: memory map and 128K paging. Records histories of paging-port writes and memory
//! accesses executed by the emulated CPU.
use crate::host::*;
use crate::util::*;
use serde_json::json;
use std::collections::VecDeque;

const CODE: u16 = 0x8000; // bank 2, offsets 0..15 are reserved for the three instructions
const OUT_C_A: u16 = CODE; // ED 79
const LD_HL_A: u16 = CODE + 2; // 77
const LD_A_HL: u16 = CODE + 3; // 7E

fn rom_files() -> [Vec<u8>; 3] {
    let d = "/repo/rustzx-core/src/zx/roms/";
    [
        std::fs::read(format!("{d}48.rom")).expect("48.rom"),
        std::fs::read(format!("{d}128.rom.0")).expect("128.rom.0"),
        std::fs::read(format!("{d}128.rom.1")).expect("128.rom.1"),
    ]
}

pub fn marker_rom(page: u8) -> Vec<u8> {
    (0..16384u64).map(|o| hash8(0x524F4D00 + page as u64, o)).collect()
}

struct Machine {
    emu: Emu,
    m128: bool,
    roms: [Vec<u8>; 2],
}

impl Machine {
    fn new(m128: bool, embedded: bool, files: &[Vec<u8>; 3], chunk: usize) -> Self {
        let mut cfg = EmuCfg::new(m128);
        cfg.default_rom = embedded;
        let mut emu = cfg.build();
        let roms = if embedded {
            if m128 {
                [files[1].clone(), files[2].clone()]
            } else {
                [files[0].clone(), files[0].clone()]
            }
        } else {
            let r = [marker_rom(0), marker_rom(1)];
            let mut pages = VecDeque::new();
            pages.push_back(r[0].clone());
            if m128 {
                pages.push_back(r[1].clone());
            }
            // the host's ROM assets deliver a page in one piece or in several (a file read in blocks)
            emu.load_rom(VRomSet { pages, chunk }).expect("rom load");
            if m128 {
                r
            } else {
                [r[0].clone(), r[0].clone()]
            }
        };
        poke_bytes(&mut emu, CODE, &[0xED, 0x79, 0x77, 0x7E]);
        Machine { emu, m128, roms }
    }

    fn out(&mut self, port: u16, val: u8) {
        let cpu = self.emu.verif_cpu();
        cpu.regs.set_bc(port);
        cpu.regs.set_acc(val);
        cpu.regs.set_pc(OUT_C_A);
        step(&mut self.emu);
    }

    fn wr(&mut self, addr: u16, val: u8) {
        let cpu = self.emu.verif_cpu();
        cpu.regs.set_hl(addr);
        cpu.regs.set_acc(val);
        cpu.regs.set_pc(LD_HL_A);
        step(&mut self.emu);
    }

    fn rd(&mut self, addr: u16) -> u8 {
        let cpu = self.emu.verif_cpu();
        cpu.regs.set_hl(addr);
        cpu.regs.set_pc(LD_A_HL);
        step(&mut self.emu);
        self.emu.verif_cpu().regs.get_acc()
    }

    fn ev_rd(&mut self, out: &mut Out, addr: u16) {
        let v = self.rd(addr);
        let o = (addr & 0x3FFF) as usize;
        let rom = if addr < 0x4000 {
            json!([self.roms[0][o], self.roms[1][o]])
        } else {
            json!([0, 0])
        };
        let peek = self.emu.peek(addr);
        out.ev(json!({"ev":"rd","addr":addr,"val":v,"rom":rom,"peek":peek}));
    }
}

/// an address that does not touch the reserved code bytes (offsets 0..15 of any window, which
/// keeps the rule independent of the paging state under test)
fn rand_addr(r: &mut Rng) -> u16 {
    loop {
        let a = if r.chance(1, 2) {
            // few hot offsets so that aliasing is actually exercised
            let w = r.below(4) as u16;
            let o = *r.pick(&[0x0010u16, 0x0011, 0x1FFF, 0x2000, 0x3FFF, 0x0100]);
            w * 0x4000 + o
        } else {
            r.u16()
        };
        if a & 0x3FFF >= 16 {
            return a;
        }
    }
}

/// port that selects only the paging latch (A15=0, A1=0, A0=1; Kempston/mouse are disabled)
fn paging_port(r: &mut Rng) -> u16 {
    if r.chance(1, 3) {
        0x7FFD
    } else {
        (r.u16() & 0x7FFC) | 0x0001
    }
}

/// odd port that does not select the paging latch and no AY port either (A1=1)
fn other_port(r: &mut Rng) -> u16 {
    r.u16() | 0x0003
}

pub fn run(args: &Args) {
    let mut out = Out::create(&args.str("out", "-"));
    let seed = args.num("seed", 1);
    let histories = args.num("histories", 20);
    let len = args.num("len", 200);
    let exhaustive = args.num("exhaustive", 0);
    let files = rom_files();
    let mut r = Rng::new(seed ^ 0xC06);

    for h in 0..histories {
        let m128 = h % 4 != 3;
        let embedded = h % 2 == 1;
        let mut m = Machine::new(m128, embedded, &files, *r.pick(&[0usize, 0, 4096, 1000, 16383, 1]));
        out.ev(json!({"ev":"reset","m": if m128 {128} else {48}, "embedded": embedded}));
        // paging-heavy and memory-heavy histories alternate; lock bit is rare in some of them
        let lock_rare = h % 3 != 0;
        for i in 0..len {
            // the first steps of a history come before any paging write: the power-on map (bank 0 at 0xC000, ROM 0) is
            // probed with writes and reads through every window
            match if i < 12 { 4 + r.below(6) } else { r.below(10) } {
                0..=2 => {
                    let mut v = r.u8();
                    if lock_rare && r.chance(9, 10) {
                        v &= !0x20;
                    }
                    let p = paging_port(&mut r);
                    m.out(p, v);
                    out.ev(json!({"ev":"out","port":p,"val":v}));
                }
                3 if r.chance(1, 4) => {
                    // the host offers a file that is rejected (other model, truncated, not a snapshot at all): nothing of the
                    // memory map may change, a locked latch stays locked
                    use rustzx_core::host::Snapshot;
                    let kind = r.below(4);
                    let res = match kind {
                        0 => m.emu.load_snapshot(Snapshot::Sna(VAsset::new(vec![0u8; if m128 { 49179 } else { 131103 }]))),
                        1 => m.emu.load_snapshot(Snapshot::Sna(VAsset::new(vec![0u8; 100]))),
                        2 => m.emu.load_snapshot(Snapshot::Szx(VAsset::new(b"ZXSX\x01\x04\x01\x00".to_vec()))),
                        _ => m.emu.load_snapshot(Snapshot::Szx(VAsset::new(vec![b'Z', b'X', b'S', b'T', 1, 4, if m128 { 1 } else { 2 }, 0]))),
                    };
                    out.ev(json!({"ev":"badload","kind":kind,"accepted":res.is_ok()}));
                }
                3 if r.chance(1, 3) => {
                    // ... and one it accepts: a well-formed snapshot of the machine's own model, every bank filled with its own
                    // byte value. From here on the history starts from the file's memory and latch (the three instructions of
                    // the driver are put back; the 48K SNA keeps its PC in the reserved bytes below them)
                    use crate::files::*;
                    use rustzx_core::host::Snapshot;
                    let base = r.u8();
                    let fill: Vec<u8> = (0..8u8).map(|b| base.wrapping_add(b.wrapping_mul(29)).wrapping_add(1)).collect();
                    let mut cpu = CpuDesc::default();
                    cpu.sp = CODE + 0x10;
                    cpu.pc = CODE;
                    cpu.im = 1;
                    let mut latch = r.u8();
                    if lock_rare && r.chance(9, 10) {
                        latch &= !0x20;
                    }
                    let d = MachineDesc { m128, cpu, border: r.u8() & 7, latch: if m128 { latch } else { 0 }, banks: fill.iter().map(|f| vec![*f; 16384]).collect() };
                    let kind = r.below(3);
                    let res = match kind {
                        0 => m.emu.load_snapshot(Snapshot::Sna(VAsset::new(if m128 { sna128(&d) } else { sna48(&d) }))),
                        1 => m.emu.load_snapshot(Snapshot::Szx(VAsset::new(szx(&d, &SzxOpts::default())))),
                        _ => m.emu.load_snapshot(Snapshot::Szx(VAsset::new(szx(&d, &SzxOpts { compressed: true, shuffle: r.below(1000), ..Default::default() })))),
                    };
                    poke_bytes(&mut m.emu, CODE, &[0xED, 0x79, 0x77, 0x7E]);
                    out.ev(json!({"ev":"load","kind":kind,"latch":d.latch,"fill":fill,"accepted":res.is_ok()}));
                }
                3 => {
                    let (p, v) = (other_port(&mut r), r.u8());
                    m.out(p, v);
                    out.ev(json!({"ev":"out","port":p,"val":v}));
                }
                4..=6 => {
                    let (a, v) = (rand_addr(&mut r), r.u8());
                    m.wr(a, v);
                    out.ev(json!({"ev":"wr","addr":a,"val":v}));
                }
                _ => {
                    let a = rand_addr(&mut r);
                    m.ev_rd(&mut out, a);
                }
            }
        }
    }

    // exhaustive part: every latch history of length <= 2 (first value all 256, second value all
    // 256 when `exhaustive` >= 2, else 16 spread values), each followed by one marker probe per
    // window. Bank markers are written once through the CPU at offset 0x0100.
    if exhaustive > 0 {
        for embedded in [false] {
            let seconds: Vec<u16> = if exhaustive >= 2 {
                (0..256).collect()
            } else {
                (0..16).map(|i| (i * 37 + 5) % 256).collect()
            };
            for v1 in 0..256u16 {
                for &v2 in seconds.iter() {
                    let mut m = Machine::new(true, embedded, &files, 0);
                    out.ev(json!({"ev":"reset","m":128,"embedded":embedded}));
                    // markers: page bank b at 0xC000 and write b+0x40 at 0xC100
                    for b in 0..8u8 {
                        m.out(0x7FFD, b);
                        out.ev(json!({"ev":"out","port":0x7FFD,"val":b}));
                        m.wr(0xC100, 0x40 + b);
                        out.ev(json!({"ev":"wr","addr":0xC100,"val":0x40+b}));
                    }
                    m.out(0x7FFD, v1 as u8);
                    out.ev(json!({"ev":"out","port":0x7FFD,"val":v1}));
                    m.out(0x7FFD, v2 as u8);
                    out.ev(json!({"ev":"out","port":0x7FFD,"val":v2}));
                    for w in 0..4u16 {
                        m.ev_rd(&mut out, w * 0x4000 + 0x100);
                    }
                }
            }
        }
    }
    let n = out.finish();
    eprintln!("paging: {n} events");
}
