//! C08: screen contents delivered by every path, then frames with untouched memory; plus single
//! writes at known beam times.
use crate::files::*;
use crate::host::*;
use crate::tape::{good_block, tap_bytes};
use crate::util::*;
use rustzx_core::host::{Screen, Snapshot, Tape};
use rustzx_core::poke::{Poke, PokeAction};
use serde_json::{json, Value};
use std::time::Duration;

struct VecPoke(Vec<PokeAction>);
impl Poke for VecPoke {
    fn actions(&self) -> &[PokeAction] {
        &self.0
    }
}

const LOOP: u16 = 0x8000;

fn random_screen(r: &mut Rng, kind: u64) -> Vec<u8> {
    let mut s = r.bytes(6912);
    match kind % 4 {
        0 => {}
        1 => {
            // every BRIGHT/FLASH/ink/paper combination, one-hot bitmaps per third
            for (i, b) in s.iter_mut().enumerate() {
                if i < 6144 {
                    *b = 1u8 << ((i / 32) % 8);
                } else {
                    *b = ((i - 6144) % 256) as u8;
                }
            }
        }
        2 => {
            // no FLASH cells at all
            for b in s[6144..].iter_mut() {
                *b &= 0x7F;
            }
        }
        _ => {
            for b in s[6144..].iter_mut() {
                *b |= 0x80;
            }
        }
    }
    s
}

fn idle(emu: &mut Emu) {
    poke_bytes(emu, LOOP, &[0x18, 0xFE]);
    let cpu = emu.verif_cpu();
    cpu.regs.set_pc(LOOP);
    cpu.regs.set_sp(0xBFF0);
    cpu.regs.set_iff1(false);
    cpu.regs.set_iff2(false);
    cpu.halted = false;
}

fn cpu_out(emu: &mut Emu, port: u16, v: u8) {
    poke_bytes(emu, 0x8010, &[0xED, 0x79]);
    let cpu = emu.verif_cpu();
    cpu.regs.set_bc(port);
    cpu.regs.set_acc(v);
    cpu.regs.set_pc(0x8010);
    step(emu);
}

fn cpu_write(emu: &mut Emu, addr: u16, v: u8) {
    // LD (HL),A at 0x8012
    let cpu = emu.verif_cpu();
    cpu.regs.set_hl(addr);
    cpu.regs.set_acc(v);
    cpu.regs.set_pc(0x8012);
    step(emu);
}

fn desc_with_screen(m128: bool, scr: &[u8], shadow: bool, r: &mut Rng) -> MachineDesc {
    let mut banks: Vec<Vec<u8>> = (0..8).map(|_| vec![0u8; 16384]).collect();
    let sb = if shadow { 7 } else { 5 };
    banks[sb][..6912].copy_from_slice(scr);
    if shadow {
        // something different in bank 5 so that a wrong bank shows
        for b in banks[5][..6912].iter_mut() {
            *b = r.u8();
        }
    }
    banks[2][0] = 0x18;
    banks[2][1] = 0xFE;
    MachineDesc {
        m128,
        cpu: CpuDesc {
            af: 0, bc: 0, de: 0, hl: 0, af_: 0, bc_: 0, de_: 0, hl_: 0, ix: 0, iy: 0x5C3A,
            sp: 0xBFF0, pc: LOOP, i: 0x3F, r: 0, iff1: false, iff2: false, im: 1,
        },
        border: 3,
        latch: if shadow { 0x08 } else { 0 },
        banks,
    }
}

fn canvas(emu: &Emu) -> Vec<u8> {
    emu.screen_buffer().px.clone()
}

fn run_frames(emu: &mut Emu, out: &mut Out, n: usize, log_every: usize) {
    emu.set_debug_interface(VDebug::Never);
    emu.set_speed(rustzx_core::EmulationMode::FrameCount(1));
    // the frame in which the delivery happened (and the one after a load that resets nothing) is not
    // a frame during which the memory stayed unchanged: not judged, but it counts for the flash phase
    for _ in 0..2 {
        emu.emulate_frames(Duration::from_secs(1000)).unwrap();
    }
    out.ev(json!({"ev":"skip","n":2}));
    let mut skipped = 0;
    for f in 0..n {
        emu.emulate_frames(Duration::from_secs(1000)).unwrap();
        if f % log_every == 0 || f + 1 == n {
            if skipped > 0 {
                out.ev(json!({"ev":"skip","n":skipped}));
                skipped = 0;
            }
            out.ev(json!({"ev":"frame","canvas":canvas(emu)}));
        } else if log_every > 1 {
            // the long watch: every frame in between is sampled at 64 pixels, so that each single frame takes part in
            // the judgement of the FLASH rhythm ("swapping ink and paper every 16 frames")
            let px = canvas(emu);
            let samples: Vec<Value> = (0..64usize)
                .map(|k| {
                    let (x, y) = ((k * 37 + f * 11) % 256, (k * 53 + f * 7) % 192);
                    json!([x, y, px[y * 256 + x]])
                })
                .collect();
            out.ev(json!({"ev":"fframe","samples":samples}));
        } else {
            skipped += 1;
        }
    }
}

pub fn run(args: &Args) {
    let mut out = Out::create(&args.str("out", "-"));
    let seed = args.num("seed", 1);
    let rounds = args.num("rounds", 1);
    let frames = args.num("frames", 3) as usize;
    let long = args.num("long", 36) as usize;
    let beam = args.num("beam", 0);
    let mut r = Rng::new(seed ^ 0xC08);
    let paths = [
        "cpu48", "cpu128", "cpu128_c000_bank5", "cpu128_shadow", "ldir48", "fastload48", "sna48", "sna128",
        "sna128_shadow", "szx48", "szx128_compressed", "szx128_shadow", "scr48", "scr128", "poke48", "poke128_shadow",
        "fastload128_c000_bank5", "fastload128_shadow", "cpu128_locked", "cpu128_shadow_locked", "cpu48_snapshot_taken",
        "szx128_shadow_nospcr",
    ];
    for round in 0..rounds {
        for (pi, path) in paths.iter().enumerate() {
            let m128 = path.contains("128");
            let shadow = path.contains("shadow");
            let scr = random_screen(&mut r, round + pi as u64);
            let mut cfg = EmuCfg::new(m128);
            cfg.fastload = true;
            let mut emu = cfg.build();
            out.ev(json!({"ev":"reset","m": if m128 {128} else {48},"path":path}));
            let mut szx_cycles: i64 = -1;
            poke_bytes(&mut emu, 0x8010, &[0xED, 0x79, 0x77]);
            // an old picture first, so that a path that delivers nothing shows
            for o in 0..6912u16 {
                emu.verif_bus_write(0x4000 + o, 0x55);
            }
            idle(&mut emu);
            match *path {
                "cpu48" | "cpu128" => {
                    for (o, b) in scr.iter().enumerate() {
                        cpu_write(&mut emu, 0x4000 + o as u16, *b);
                    }
                }
                "cpu128_locked" | "cpu128_shadow_locked" => {
                    // a picture in the displayed screen bank, another one in the other screen bank, paging locked with the
                    // display bit as it is - then a write that would switch screens: it must be ignored as a whole
                    let keep = if shadow { 8u8 } else { 0 };
                    cpu_out(&mut emu, 0x7FFD, 7 | keep);
                    for (o, b) in scr.iter().enumerate() {
                        let (v5, v7) = if shadow { (!*b, *b) } else { (*b, !*b) };
                        cpu_write(&mut emu, 0x4000 + o as u16, v5);
                        cpu_write(&mut emu, 0xC000 + o as u16, v7);
                    }
                    cpu_out(&mut emu, 0x7FFD, keep | 0x20);
                    cpu_out(&mut emu, 0x7FFD, keep ^ 8);
                    cpu_out(&mut emu, 0x3FFD, (keep ^ 8) | 0x07);
                }
                "cpu48_snapshot_taken" => {
                    // the host takes an SNA snapshot while the program's stack lies in the display file (the 48K format keeps
                    // PC on the stack for a moment): memory is as before, and so must the picture be
                    for (o, b) in scr.iter().enumerate() {
                        cpu_write(&mut emu, 0x4000 + o as u16, *b);
                    }
                    for sp in [0x4802u16, 0x5A02, 0x4001, 0x5B00] {
                        emu.verif_cpu().regs.set_sp(sp);
                        let buf = std::rc::Rc::new(std::cell::RefCell::new(Vec::new()));
                        let rec = VRecorder { out: buf.clone(), limit: usize::MAX };
                        emu.save_snapshot(rustzx_core::host::SnapshotRecorder::Sna(rec)).unwrap();
                    }
                }
                "cpu128_c000_bank5" => {
                    cpu_out(&mut emu, 0x7FFD, 5);
                    for (o, b) in scr.iter().enumerate() {
                        cpu_write(&mut emu, 0xC000 + o as u16, *b);
                    }
                    cpu_out(&mut emu, 0x7FFD, 0);
                }
                "cpu128_shadow" => {
                    cpu_out(&mut emu, 0x7FFD, 7 | 8);
                    for (o, b) in scr.iter().enumerate() {
                        cpu_write(&mut emu, 0xC000 + o as u16, *b);
                    }
                    cpu_out(&mut emu, 0x7FFD, 8);
                }
                "ldir48" => {
                    for (o, b) in scr.iter().enumerate() {
                        emu.verif_bus_write(0x9000 + o as u16, *b);
                    }
                    poke_bytes(&mut emu, 0x8020, &[0xED, 0xB0, 0x18, 0xFE]);
                    let cpu = emu.verif_cpu();
                    cpu.regs.set_hl(0x9000);
                    cpu.regs.set_de(0x4000);
                    cpu.regs.set_bc(6912);
                    cpu.regs.set_pc(0x8020);
                    assert!(run_to(&mut emu, 0x8022, 20));
                }
                "fastload48" => {
                    let blk = good_block(0xFF, &scr);
                    emu.load_tape(Tape::Tap(DynAsset::mem(tap_bytes(&[blk])))).unwrap();
                    poke_bytes(&mut emu, 0x5B80, &[0xCD, 0x56, 0x05]);
                    let cpu = emu.verif_cpu();
                    cpu.regs.set_af(0xFF01);
                    cpu.regs.set_ix(0x4000);
                    cpu.regs.set_de(6912);
                    cpu.regs.set_sp(0x5BFE);
                    cpu.regs.set_pc(0x5B80);
                    assert!(run_to(&mut emu, 0x5B83, 50));
                }
                "fastload128_c000_bank5" | "fastload128_shadow" => {
                    // the 48K BASIC ROM (ROM 1) is paged in for the trap; the block goes through the window at 0xC000
                    // into the screen bank that is displayed (bank 5, or bank 7 with the shadow screen selected)
                    let latch = 0x10 | if shadow { 7 | 8 } else { 5 };
                    cpu_out(&mut emu, 0x7FFD, latch);
                    let blk = good_block(0xFF, &scr);
                    emu.load_tape(Tape::Tap(DynAsset::mem(tap_bytes(&[blk])))).unwrap();
                    poke_bytes(&mut emu, 0x5B80, &[0xCD, 0x56, 0x05]);
                    let cpu = emu.verif_cpu();
                    cpu.regs.set_af(0xFF01);
                    cpu.regs.set_ix(0xC000);
                    cpu.regs.set_de(6912);
                    cpu.regs.set_sp(0x5BFE);
                    cpu.regs.set_pc(0x5B80);
                    assert!(run_to(&mut emu, 0x5B83, 50));
                    cpu_out(&mut emu, 0x7FFD, if shadow { 8 } else { 0 });
                }
                "sna48" => {
                    let d = desc_with_screen(false, &scr, false, &mut r);
                    emu.load_snapshot(Snapshot::Sna(VAsset::new(sna48(&d)))).unwrap();
                }
                "sna128" | "sna128_shadow" => {
                    let d = desc_with_screen(true, &scr, shadow, &mut r);
                    emu.load_snapshot(Snapshot::Sna(VAsset::new(sna128(&d)))).unwrap();
                }
                // (SZX files say at which T-state of its frame the machine was saved; the receiver is somewhere in the middle
                // of its own frame when the file arrives, as at a breakpoint stop)
                "szx48" => {
                    let d = desc_with_screen(false, &scr, false, &mut r);
                    szx_cycles = r.below(FRAME_48 as u64 - 1000) as i64;
                    emu.verif_wait(r.below(FRAME_48 as u64 - 1000) as usize);
                    emu.load_snapshot(Snapshot::Szx(VAsset::new(szx(&d, &SzxOpts { cycles: szx_cycles as u32, ..Default::default() })))).unwrap();
                }
                "szx128_shadow_nospcr" => {
                    // the shadow screen is displayed when a file without an SPCR chunk arrives: it says nothing about paging,
                    // the latch stays what it was, and the picture is the bank the latch selects
                    cpu_out(&mut emu, 0x7FFD, 8);
                    let d = desc_with_screen(true, &scr, true, &mut r);
                    emu.load_snapshot(Snapshot::Szx(VAsset::new(szx(&d, &SzxOpts { no_spcr: true, ..Default::default() })))).unwrap();
                }
                "szx128_compressed" | "szx128_shadow" => {
                    let d = desc_with_screen(true, &scr, shadow, &mut r);
                    if !shadow {
                        szx_cycles = r.below(FRAME_128 as u64 - 1000) as i64;
                        emu.verif_wait(r.below(FRAME_128 as u64 - 1000) as usize);
                    }
                    let o = SzxOpts { compressed: true, shuffle: r.next() | 1, junk_chunks: true, cycles: szx_cycles.max(0) as u32, ..Default::default() };
                    emu.load_snapshot(Snapshot::Szx(VAsset::new(szx(&d, &o)))).unwrap();
                }
                "scr48" | "scr128" => {
                    emu.load_screen(Screen::Scr(VAsset::new(scr.clone()))).unwrap();
                }
                "poke48" => {
                    let acts: Vec<PokeAction> = scr.iter().enumerate().map(|(o, b)| PokeAction::mem(0x4000 + o as u16, *b)).collect();
                    emu.execute_poke(VecPoke(acts));
                }
                "poke128_shadow" => {
                    cpu_out(&mut emu, 0x7FFD, 7 | 8);
                    let acts: Vec<PokeAction> = scr.iter().enumerate().map(|(o, b)| PokeAction::mem(0xC000 + o as u16, *b)).collect();
                    emu.execute_poke(VecPoke(acts));
                    cpu_out(&mut emu, 0x7FFD, 8);
                }
                _ => unreachable!(),
            }
            if !path.starts_with("sna") && !path.starts_with("szx") && !path.starts_with("scr") {
                idle(&mut emu);
            }
            // what the ULA sees: bank 5, or bank 7 when the shadow screen is displayed
            let locked = path.contains("locked");
            let visible: Vec<u8> = if shadow && locked {
                // paging is locked: bank 7 is read through the memory hook
                emu.verif_ram_bank(7)[..6912].to_vec()
            } else if path.contains("nospcr") {
                let (latch, _) = emu.verif_paging();
                emu.verif_ram_bank(if latch & 8 != 0 { 7 } else { 5 })[..6912].to_vec()
            } else if shadow {
                let (latch, _) = emu.verif_paging();
                assert!(latch & 8 != 0, "shadow screen not selected on path {path}");
                // read bank 7 through the window at 0xC000 (page it in with the display bit kept)
                cpu_out(&mut emu, 0x7FFD, 7 | 8);
                let v = (0..6912u16).map(|o| emu.peek(0xC000 + o)).collect();
                cpu_out(&mut emu, 0x7FFD, 8);
                idle(&mut emu);
                v
            } else {
                (0..6912u16).map(|o| emu.peek(0x4000 + o)).collect()
            };
            out.ev(json!({"ev":"screen","bytes":visible,"delivered_equal": visible == scr}));
            if szx_cycles >= 0 {
                // the frame the snapshot continues: whatever the beam reaches after the file's own moment shows the file's picture
                emu.set_debug_interface(VDebug::Never);
                emu.set_speed(rustzx_core::EmulationMode::FrameCount(1));
                emu.emulate_frames(Duration::from_secs(1000)).unwrap();
                out.ev(json!({"ev":"pframe","from_t":szx_cycles,"canvas":canvas(&emu)}));
            }
            // one path per round is watched over a whole flash period
            let n = if pi as u64 == round % paths.len() as u64 { long } else { frames };
            run_frames(&mut emu, &mut out, n, if n > 8 { 5 } else { 1 });

            // writes that do not touch the visible display file (beyond it in the same bank, other banks, the other
            // screen bank, addresses that share low address bits with display bytes) must leave the picture alone.
            // The spec decides through the memory map which of them, if any, reach the visible bytes.
            if !locked {
                let keep = if shadow { 8u8 } else { 0 };
                poke_bytes(&mut emu, 0x8010, &[0xED, 0x79, 0x77]);
                let mut ws: Vec<Value> = vec![];
                let method = ["poke", "cpu", "bus"][(pi + round as usize) % 3];
                let banks_c000: Vec<u8> = if m128 { vec![0, 1, 3, 4, 6, if shadow { 5 } else { 7 }, 2] } else { vec![0] };
                for (bi, bankc) in banks_c000.iter().enumerate() {
                    if m128 {
                        cpu_out(&mut emu, 0x7FFD, bankc | keep);
                    }
                    let mut addrs: Vec<u16> = vec![];
                    for _ in 0..6 {
                        let o = r.below(6912) as u16;
                        addrs.push(0xC000 + o); // a non-visible bank at the same offsets as the picture
                        addrs.push(0xC000 + 0x2000 + (o % 0x1B00)); // same low 13 address bits
                        if bi == 0 {
                            if shadow {
                                addrs.push(0x4000 + o); // the screen bank that is not displayed
                            }
                            addrs.push(0x8000 + o);
                            addrs.push(0x4000 + 0x2000 + o % 0x1B00); // bank 5 beyond the display file, low 13 bits of a display byte
                            addrs.push(0x5B00 + r.below(0x2500) as u16);
                        }
                    }
                    // bank 5 or 7 at 0xC000 while it is the visible one is left out: that is a write to the picture
                    for a in addrs {
                        if (a >= 0x8000 && a < 0x8040) || (*bankc == 2 && (a & 0x3FFF) < 0x40) || (a & 0x3FFF) >= 0x3FE0 {
                            continue; // the harness' own code and stack
                        }
                        if (0x4000..0x5B00).contains(&a) && !shadow {
                            continue;
                        }
                        let v = !emu.peek(a) ^ 0x21;
                        match method {
                            "poke" => emu.execute_poke(VecPoke(vec![PokeAction::mem(a, v)])),
                            "cpu" => cpu_write(&mut emu, a, v),
                            _ => emu.verif_bus_write(a, v),
                        }
                        ws.push(json!([bankc, a, v]));
                    }
                }
                if m128 {
                    cpu_out(&mut emu, 0x7FFD, keep);
                }
                idle(&mut emu);
                out.ev(json!({"ev":"writes","method":method,"shadow":shadow,"ws":ws}));
                run_frames(&mut emu, &mut out, 2, 1);
            }

            // 128K: the program switches to the other screen bank while the beam is inside the picture, and nothing is
            // written afterwards: from the next whole frame on every frame shows the bank now displayed
            if m128 && !locked {
                let frame_len = FRAME_128;
                let cur = emu.verif_frame_clocks();
                let t = 16_000 + r.below(40_000) as usize;
                if t > cur {
                    emu.verif_wait(t - cur);
                }
                let (latch, _) = emu.verif_paging();
                cpu_out(&mut emu, 0x7FFD, (latch ^ 8) & 0x1F);
                idle(&mut emu);
                let now_shadow = (latch ^ 8) & 8 != 0;
                let visible: Vec<u8> = emu.verif_ram_bank(if now_shadow { 7 } else { 5 })[..6912].to_vec();
                out.ev(json!({"ev":"screen","bytes":visible,"delivered_equal": true}));
                let _ = frame_len;
                run_frames(&mut emu, &mut out, 5, 1);
                // and back, at a frame boundary this time
                cpu_out(&mut emu, 0x7FFD, latch & 0x1F);
                idle(&mut emu);
                let visible: Vec<u8> = emu.verif_ram_bank(if now_shadow { 5 } else { 7 })[..6912].to_vec();
                out.ev(json!({"ev":"screen","bytes":visible,"delivered_equal": true}));
                run_frames(&mut emu, &mut out, 2, 1);
            }

            // beam-relative writes
            if beam > 0 && pi < 4 {
                let frame_len = if m128 { FRAME_128 } else { FRAME_48 };
                for _ in 0..beam {
                    // finish the current frame, then place one write at a chosen time of the next one
                    // any byte of the display file; half of the time one at an end of something: the first and last cell of
                    // the picture, of a line, of a third, of the attribute area
                    let off = if r.chance(1, 2) {
                        *r.pick(&[0u16, 0, 1, 31, 32, 255, 256, 2047, 2048, 4095, 4096, 6143, 6144, 6144, 6145, 6175, 6176, 6911])
                    } else {
                        r.below(6912) as u16
                    };
                    let tw = match r.below(4) {
                        0 => r.below(frame_len as u64 - 200) as usize + 100,
                        // long before the ULA starts to fetch the picture / after it has finished
                        1 => if r.chance(2, 3) { 100 + r.below(14_000) as usize } else { frame_len - 200 - r.below(10_000) as usize },
                        _ => {
                            // around the beam time of that very byte
                            let (t0, line) = if m128 { (14362usize, 228usize) } else { (14336usize, 224usize) };
                            let (y, c) = if off < 6144 {
                                let o = off as usize;
                                (((o >> 8) & 7) | ((o >> 2) & 0x38) | ((o >> 5) & 0xC0), o & 31)
                            } else {
                                ((((off as usize - 6144) / 32) * 8 + r.below(8) as usize), (off as usize - 6144) % 32)
                            };
                            let t = t0 + y * line + c * 4;
                            t + r.below(80) as usize - 40
                        }
                    };
                    let cur = emu.verif_frame_clocks();
                    assert!(cur < 200, "idle loop must have stopped right after the frame start");
                    emu.verif_wait(tw - cur);
                    let base = if shadow { 0xC000 } else { 0x4000 };
                    if shadow {
                        cpu_out(&mut emu, 0x7FFD, 7 | 8);
                    }
                    let tw_real = emu.verif_frame_clocks();
                    let old = emu.peek(base + off);
                    let new = old ^ (1 << r.below(8)) ^ 0x10;
                    // "however the bytes got there": through the CPU's write path, or put there by the host (a poke) while
                    // the CPU is busy elsewhere
                    let by_host = r.chance(1, 2);
                    if by_host {
                        emu.execute_poke(VecPoke(vec![PokeAction::mem(base + off, new)]));
                    } else {
                        emu.verif_bus_write(base + off, new);
                    }
                    if shadow {
                        cpu_out(&mut emu, 0x7FFD, 8);
                    }
                    idle(&mut emu);
                    emu.set_debug_interface(VDebug::Never);
                    emu.emulate_frames(Duration::from_secs(1000)).unwrap();
                    out.ev(json!({"ev":"wframe","tw":tw_real,"off":off,"old":old,"new":new,"by_host":by_host,"canvas":canvas(&emu)}));
                }
            }
        }
    }
    let n = out.finish();
    eprintln!("screen: {n} events");
}
