//! C16 (asset clause): the asset implementations of the repository exercised with random sequences of
//! read / read_exact / seek; one event per call, judged by Asset.tla.
use crate::util::*;
use rustzx_core::host::{BufferCursor, LoadableAsset, SeekFrom, SeekableAsset};
use rustzx_utils::io::{DynamicAsset, FileAsset, GzipAsset};
use serde_json::{json, Value};

fn exercise<A: LoadableAsset + SeekableAsset>(name: &str, data: &[u8], mut a: A, r: &mut Rng, out: &mut Out, ops: u64) {
    out.ev(json!({"ev":"aopen","impl":name,"data":data}));
    let len = data.len() as i64;
    for _ in 0..ops {
        match r.below(10) {
            0..=3 => {
                let n = *r.pick(&[0usize, 1, 1, 2, 3, 7, 16, 64, 200]);
                let mut buf = vec![0xEEu8; n];
                let res = match guarded(|| a.read(&mut buf)) {
                    Ok(Ok(k)) if k <= n => json!({"kind":"ok","bytes":buf[..k].to_vec()}),
                    Ok(Ok(k)) => json!({"kind":"bogus","count":k}),
                    Ok(Err(e)) => json!({"kind":"err","e":format!("{e:?}")}),
                    Err(p) => json!({"kind":"panic","e":p}),
                };
                out.ev(json!({"ev":"aop","op":"read","n":n,"res":res}));
            }
            4..=5 => {
                let n = *r.pick(&[0usize, 1, 2, 5, 16, 64, 65]);
                let mut buf = vec![0xEEu8; n];
                let res = match guarded(|| a.read_exact(&mut buf)) {
                    Ok(Ok(())) => json!({"kind":"ok","bytes":buf}),
                    Ok(Err(e)) => json!({"kind":"err","e":format!("{e:?}")}),
                    Err(p) => json!({"kind":"panic","e":p}),
                };
                out.ev(json!({"ev":"aop","op":"read_exact","n":n,"res":res}));
            }
            _ => {
                let (whence, off, pos): (&str, i64, SeekFrom) = match r.below(3) {
                    0 => {
                        let o = *r.pick(&[0i64, 1, len / 2, len - 1, len, len + 1, len + 70]).max(&0);
                        ("start", o, SeekFrom::Start(o as usize))
                    }
                    1 => {
                        let o = *r.pick(&[0i64, -1, -2, -len, -len - 1, -len / 2, 1, 5]);
                        ("end", o, SeekFrom::End(o as isize))
                    }
                    _ => {
                        let o = *r.pick(&[0i64, 0, 1, -1, 3, -3, -len - 2, len]);
                        ("cur", o, SeekFrom::Current(o as isize))
                    }
                };
                let res = match guarded(|| a.seek(pos)) {
                    Ok(Ok(p)) => json!({"kind":"ok","pos":p}),
                    Ok(Err(e)) => json!({"kind":"err","e":format!("{e:?}")}),
                    Err(p) => json!({"kind":"panic","e":p}),
                };
                out.ev(json!({"ev":"aop","op":"seek","whence":whence,"off":off,"res":res}));
            }
        }
    }
}

fn file_of(data: &[u8], tag: u64) -> std::fs::File {
    let p = std::env::temp_dir().join(format!("vharness_asset_{}_{}", std::process::id(), tag));
    if std::fs::write(&p, data).is_err() {
        tool_error("cannot write a scratch file");
    }
    let f = std::fs::File::open(&p).unwrap_or_else(|_| tool_error("cannot open the scratch file"));
    let _ = std::fs::remove_file(&p);
    f
}

fn gz_of(data: &[u8]) -> Vec<u8> {
    use flate2::write::GzEncoder;
    use std::io::Write;
    let mut enc = GzEncoder::new(Vec::new(), flate2::Compression::default());
    enc.write_all(data).unwrap();
    enc.finish().unwrap()
}

pub fn run(args: &Args) {
    let mut out = Out::create(&args.str("out", "-"));
    let seed = args.num("seed", 1);
    let files = args.num("files", 10);
    let ops = args.num("ops", 60);
    let mut r = Rng::new(seed ^ 0xA55E7);
    for i in 0..files {
        let len = *r.pick(&[0usize, 1, 2, 3, 17, 64]);
        let data = r.bytes(len);
        exercise("cursor", &data, BufferCursor::new(data.clone()), &mut r, &mut out, ops);
        exercise("file", &data, FileAsset::from(file_of(&data, i * 4)), &mut r, &mut out, ops);
        exercise("gzip", &data, GzipAsset::new(std::io::Cursor::new(gz_of(&data))).expect("gzip"), &mut r, &mut out, ops);
        exercise("dyn:cursor", &data, DynamicAsset::from(BufferCursor::new(data.clone())), &mut r, &mut out, ops);
        exercise("dyn:file", &data, DynamicAsset::from(FileAsset::from(file_of(&data, i * 4 + 1))), &mut r, &mut out, ops);
        exercise("dyn:gzip", &data, DynamicAsset::from(GzipAsset::new(std::io::Cursor::new(gz_of(&data))).expect("gzip")), &mut r, &mut out, ops);
    }
    // files far larger than any snapshot (a long tape image): the same contract, fewer calls
    for i in 0..args.num("big", 0) {
        let len = if i % 2 == 0 { *r.pick(&[262_145usize, 300_001, 524_289]) } else { *r.pick(&[65_537usize, 131_073]) + if args.num("huge", 0) > 0 { 1_000_000 } else { 0 } };
        let data = r.bytes(len);
        let ops = 24;
        exercise("cursor", &data, BufferCursor::new(data.clone()), &mut r, &mut out, ops);
        exercise("file", &data, FileAsset::from(file_of(&data, 1000 + i * 4)), &mut r, &mut out, ops);
        exercise("gzip", &data, GzipAsset::new(std::io::Cursor::new(gz_of(&data))).expect("gzip"), &mut r, &mut out, ops);
        exercise("dyn:gzip", &data, DynamicAsset::from(GzipAsset::new(std::io::Cursor::new(gz_of(&data))).expect("gzip")), &mut r, &mut out, ops);
    }
    let n = out.finish();
    eprintln!("assets: {n} events");
    let _: Option<Value> = None;
}
