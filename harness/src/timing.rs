//! C04 / C05: machine-level timing. The full emulator is single-stepped from chosen in-frame
//! times with code, operands, stack, I and port addresses in contended and uncontended memory.
use crate::host::*;
use crate::util::*;
use crate::z80rec::{base_mem, cpu_state, CpuInit};
use serde_json::{json, Value};
use std::collections::{BTreeMap, VecDeque};

pub struct Machine {
    pub emu: Emu,
    pub m128: bool,
    pub seed: u32,
    pub bank3: u8,
    pub rom: u8,
    pub shadow: Vec<u8>,
    pub overlay: BTreeMap<u16, u8>,
}

const CODE: u16 = 0x8000;

impl Machine {
    pub fn frame(&self) -> usize {
        if self.m128 {
            FRAME_128
        } else {
            FRAME_48
        }
    }

    /// Builds a machine whose whole address space reads Base(seed, a): custom ROM pages, every
    /// RAM bank filled through the CPU write path, then the paging configuration is applied and
    /// locked.
    pub fn new(m128: bool, seed: u32, bank3: u8, rom: u8) -> Self {
        let mut cfg = EmuCfg::new(m128);
        cfg.default_rom = false;
        let mut emu = cfg.build();
        let page: Vec<u8> = (0..16384u32).map(|o| base_mem(seed, o as u16)).collect();
        let mut pages = VecDeque::new();
        pages.push_back(page.clone());
        if m128 {
            pages.push_back(page.clone());
        }
        emu.load_rom(VRomSet { pages, chunk: 0 }).expect("rom");
        let fill = |emu: &mut Emu, from: u32| {
            for a in from..0x10000u32 {
                emu.verif_bus_write(a as u16, base_mem(seed, a as u16));
            }
        };
        if m128 {
            fill(&mut emu, 0x4000);
            for b in 0..8u8 {
                Self::out_7ffd(&mut emu, b);
                fill(&mut emu, 0xC000);
            }
            Self::out_7ffd(&mut emu, (bank3 & 7) | ((rom & 1) << 4) | 0x20);
            // the two helper bytes used by out_7ffd are restored
            emu.verif_bus_write(CODE, base_mem(seed, CODE));
            emu.verif_bus_write(CODE + 1, base_mem(seed, CODE + 1));
        } else {
            fill(&mut emu, 0x4000);
        }
        // every other machine has an I/O extender installed that claims the ports with low byte 0xCC: a port cycle
        // takes the same time whoever answers it
        if seed % 2 == 1 {
            emu.set_io_extender(VExt::new(vec![(0x00FF, 0x00CC)], 0x5A));
        }
        let shadow: Vec<u8> = (0..0x10000u32).map(|a| emu.peek(a as u16)).collect();
        // everything must read Base now
        for a in 0..0x10000u32 {
            assert_eq!(shadow[a as usize], base_mem(seed, a as u16), "fill failed at {a:#x}");
        }
        Machine {
            emu,
            m128,
            seed,
            bank3,
            rom,
            shadow,
            overlay: BTreeMap::new(),
        }
    }

    fn out_7ffd(emu: &mut Emu, v: u8) {
        emu.verif_bus_write(CODE, 0xED);
        emu.verif_bus_write(CODE + 1, 0x79);
        let cpu = emu.verif_cpu();
        cpu.regs.set_bc(0x7FFD);
        cpu.regs.set_acc(v);
        cpu.regs.set_pc(CODE);
        cpu.regs.set_iff1(false);
        cpu.halted = false;
        cpu.skip_interrupt = false;
        cpu.verif_set_prefix(0);
        step(emu);
    }

    pub fn banks(&self) -> Value {
        if self.m128 {
            json!([["rom", self.rom], ["ram", 5], ["ram", 2], ["ram", self.bank3]])
        } else {
            json!([["rom", 0], ["ram", 5], ["ram", 2], ["ram", 0]])
        }
    }

    pub fn poke(&mut self, a: u16, v: u8) {
        self.emu.verif_bus_write(a, v);
        self.sync();
    }

    /// brings shadow and overlay up to date with the CPU-visible memory
    pub fn sync(&mut self) {
        for a in 0..0x10000usize {
            let v = self.emu.peek(a as u16);
            if v != self.shadow[a] {
                self.shadow[a] = v;
                if v == base_mem(self.seed, a as u16) {
                    self.overlay.remove(&(a as u16));
                } else {
                    self.overlay.insert(a as u16, v);
                }
            }
        }
    }

    /// lets time pass until the in-frame clock reads `t`
    pub fn goto_t(&mut self, t: usize) {
        let cur = self.emu.verif_frame_clocks();
        let f = self.frame();
        let d = if t >= cur { t - cur } else { f - cur + t };
        if d > 0 {
            self.emu.verif_wait(d);
        }
        assert_eq!(self.emu.verif_frame_clocks(), t);
    }

    pub fn env(&self) -> Value {
        let poke: Vec<Value> = self.overlay.iter().map(|(a, v)| json!([a, v])).collect();
        json!({"seed": self.seed, "poke": poke, "io": [], "int": false, "nmi": false, "busbyte": 255, "romtop": 16384})
    }
}

/// in-frame start times biased towards everything that selects a case of the contention model
fn pick_t(r: &mut Rng, m128: bool, edge: bool) -> usize {
    let (t0, line, frame) = if m128 {
        (14361usize, 228usize, FRAME_128)
    } else {
        (14335usize, 224usize, FRAME_48)
    };
    let class = if edge { r.below(2) } else { r.below(12) };
    match class {
        0 => r.below(40) as usize,                                  // INT window and just after
        1 => frame - 1 - r.below(30) as usize,                      // frame end (wrap)
        2 => t0 - 12 + r.below(24) as usize,                        // first contended T-state
        3 => t0 + 191 * line + r.below(140) as usize,               // last picture line
        4 => t0 + 192 * line - 6 + r.below(12) as usize,            // just after the last line
        5 => t0 + (r.below(192) as usize) * line + 120 + r.below(16) as usize, // end of the 128-T window
        6 => t0 + (r.below(192) as usize) * line + 128 + r.below(line as u64 - 128) as usize, // border part
        7 | 8 | 9 => t0 + (r.below(192) as usize) * line + r.below(128) as usize, // inside the window
        _ => r.below(frame as u64) as usize,
    }
}

/// a 16-bit value in contended / uncontended memory on request
fn addr_any(r: &mut Rng) -> u16 {
    let window = r.below(4);
    // a quarter of the addresses sit on a window boundary, so that the two bytes of a word (stack, operand, code)
    // lie in memory of different contention status
    if r.chance(1, 4) {
        if r.chance(1, 2) {
            return ((window as u16) * 0x4000).wrapping_sub(1); // the word itself straddles the boundary
        }
        // ... or it begins up to five bytes below the boundary / just above it (an instruction of up to four bytes that
        // ends exactly at the end of a window, a displacement byte or an opcode byte on either side)
        return ((window as u16) * 0x4000).wrapping_add(r.below(8) as u16).wrapping_sub(5);
    }
    (window as u16) * 0x4000 + (r.u16() & 0x3FFF)
}

/// C05: free-running programs over many frames. ROM = NOPs with an IM 1 handler at 0x0038
/// (INC DE; 7 x NOP; EI; RET = 48 T, 61 T with the acknowledge); the program lives in bank 2.
fn runs(out: &mut Out, r: &mut Rng, count: u64, long: u64) {
    use rustzx_core::EmulationMode;
    use std::time::Duration;
    for ri in 0..count {
        let m128 = ri % 2 == 1;
        let frame = if m128 { FRAME_128 } else { FRAME_48 };
        let mut cfg = EmuCfg::new(m128);
        cfg.default_rom = false;
        let mut emu = cfg.build();
        let mut page = vec![0u8; 16384];
        page[0x38..0x38 + 10].copy_from_slice(&[0x13, 0, 0, 0, 0, 0, 0, 0, 0xFB, 0xC9]);
        let mut pages = VecDeque::new();
        pages.push_back(page.clone());
        if m128 {
            pages.push_back(page.clone());
        }
        emu.load_rom(VRomSet { pages, chunk: 0 }).expect("rom");
        let halt_variant = ri % 3 == 2;
        let ei = halt_variant || ri % 3 == 1;
        let prog: &[u8] = if halt_variant {
            &[0x76, 0x23, 0xC3, 0x00, 0x80] // HALT; INC HL; JP 8000
        } else {
            &[0x23, 0xC3, 0x00, 0x80] // INC HL; JP 8000
        };
        poke_bytes(&mut emu, 0x8000, prog);
        // the deck: empty, a good tape playing in real time, or a damaged one (a block cut short / a zeroed tail, which
        // reads as a run of zero-length blocks): the host carries on after every tape error it is told about
        let tape_kind = r.below(5);
        if tape_kind >= 2 {
            // (the damage comes first: a pilot tone alone outlasts these runs)
            let good = crate::tape::tap_bytes(&[vec![0xFF, 1, 2, 3, 0xFF ^ 1 ^ 2 ^ 3], vec![0u8; 19]]);
            let bytes = match tape_kind {
                3 => vec![40, 0, 0xFF, 1, 2, 3],
                4 => {
                    let mut b = vec![0u8; 2 * (1 + r.below(400) as usize)];
                    b.extend(good);
                    b
                }
                _ => good,
            };
            emu.load_tape(rustzx_core::host::Tape::Tap(DynAsset::mem(bytes))).expect("load_tape");
            emu.play_tape();
        }
        let mut tape_errors = 0u64;
        out.ev(json!({"ev":"reset","m": if m128 {128} else {48}, "banks": [["rom",0],["ram",5],["ram",2],["ram",0]]}));
        // start somewhere in the frame
        // (one run in eight starts inside or right behind the INT pulse)
        let start = if r.chance(1, 8) { r.below(40) as usize } else { r.below(frame as u64) as usize };
        emu.verif_wait(start);
        {
            let cpu = emu.verif_cpu();
            cpu.regs.set_pc(0x8000);
            cpu.regs.set_sp(0xBF00);
            cpu.regs.set_hl(0);
            cpu.regs.set_de(0);
            cpu.regs.set_iff1(ei);
            cpu.regs.set_iff2(ei);
            cpu.set_im(1);
        }
        let t0 = emu.verif_frame_clocks();
        // (the first two HALT runs are long whatever the tier: more than 256 frames, some of them in one FrameCount(n) call)
        let k_total = if halt_variant && ri < 6 { 260 + r.below(90) } else if halt_variant { 1 + r.below(long) } else { 1 + r.below(12) } as usize;
        // host slicing: any partition of k_total into FrameCount(n) calls
        // ... with, in half of the runs, breakpoint stops every bp_k instructions in between: the host resumes until
        // the call's frames are reported complete
        // (k small in a third of them: with a stop after every instruction or two, one of the stops falls on the very
        // instruction that crosses the frame end, where a frame is complete but not yet handed over)
        let bp_k = if r.chance(1, 2) { 0 } else if r.chance(1, 3) { 1 + r.below(3) } else { 1 + r.below(6000) };
        emu.set_debug_interface(if bp_k == 0 { VDebug::Never } else { VDebug::Every { k: bp_k, n: 0 } });
        let mut left = k_total;
        let mut slicing = vec![];
        let mut stuck = false;
        while left > 0 && !stuck {
            let n = 1 + r.below(left as u64) as usize;
            let n = if r.chance(1, 2) { 1 } else { n };
            // a quarter of the calls run in maximum-speed mode with a stopwatch that reports a long time at once: such a
            // call emulates exactly one frame and returns Timeout; the host may switch modes between any two calls
            // (not with a breakpoint on every single instruction: such a call never gets as far as its time-limit check,
            // it hands control back after each instruction instead, and no frame is ever reported that way)
            let max_mode = r.chance(1, 4) && bp_k != 1;
            let n = if max_mode { 1 } else { n };
            if max_mode {
                SW_MODE.with(|m| m.set(1));
                emu.set_speed(EmulationMode::Max);
            } else {
                emu.set_speed(EmulationMode::FrameCount(n));
            }
            let mut calls = 0u64;
            loop {
                let info = match emu.emulate_frames(if max_mode { Duration::from_millis(1) } else { Duration::from_secs(100000) }) {
                    Ok(info) => info,
                    Err(_) => {
                        // a tape error is reported to the host, which carries on: emulated time goes on all the same
                        tape_errors += 1;
                        assert!(tape_kind >= 3, "emulate_frames failed without a damaged tape");
                        if tape_errors > 5000 {
                            stuck = true;
                            break;
                        }
                        continue;
                    }
                };
                if info.stop_reason == (if max_mode { rustzx_core::EmulationStopReason::Timeout } else { rustzx_core::EmulationStopReason::Completed }) {
                    break;
                }
                assert!(bp_k != 0 && info.stop_reason == rustzx_core::EmulationStopReason::Breakpoint, "unexpected stop");
                // a host may confirm its speed setting at any stop
                if !max_mode && r.chance(1, 4) {
                    emu.set_speed(EmulationMode::FrameCount(n));
                }
                calls += 1;
                // a frame has at most frame/4 instructions: more stops than that many per frame (plus slack) means that
                // the frames are never reported complete
                if calls > 2 * (n as u64 * (frame as u64 / 4 / bp_k.max(1) + 2) + 2) {
                    stuck = true; // the frames were never reported complete: the count below will not add up
                    break;
                }
            }
            SW_MODE.with(|m| m.set(0));
            slicing.push(if max_mode { 0 } else { n });
            left -= n;
        }
        emu.set_debug_interface(VDebug::Never);
        // single-step to the loop boundary, counting further frame wraps through the clock
        let mut extra = 0usize;
        let mut guard = 0;
        loop {
            let (pc, halted) = {
                let c = emu.verif_cpu();
                (c.regs.get_pc(), c.halted)
            };
            if pc == 0x8000 && !(halt_variant && halted) {
                break;
            }
            let before = emu.verif_frame_clocks();
            emu.set_speed(EmulationMode::FrameCount(1));
            step(&mut emu);
            if emu.verif_frame_clocks() < before {
                extra += 1;
            }
            guard += 1;
            assert!(guard < 100_000, "loop boundary not reached");
        }
        let t1 = emu.verif_frame_clocks();
        let (hl, de) = {
            let c = emu.verif_cpu();
            (c.regs.get_hl() as u64, c.regs.get_de() as u64)
        };
        let frames = k_total + extra;
        if halt_variant {
            out.ev(json!({"ev":"haltrun","tag":format!("R{ri}"),"frames":frames,"ints":de,"iters":hl,"t0":t0,"t1":t1,"slicing":slicing,"bp":bp_k,"tape":tape_kind,"taperr":tape_errors}));
        } else {
            out.ev(json!({"ev":"run","tag":format!("R{ri}"),"frames":frames,"t0":t0,"t1":t1,"iters":hl,"loopT":16,
                          "ints":de,"intT":61,"expectInts": if ei { -1 } else { 0 }, "ei": ei, "slicing":slicing,"bp":bp_k,"tape":tape_kind,"taperr":tape_errors}));
        }
    }
}

pub fn run(args: &Args) {
    let mut out = Out::create(&args.str("out", "-"));
    let seed = args.num("seed", 1);
    let machines = args.num("machines", 8);
    let steps = args.num("steps", 300);
    let mut r = Rng::new(seed ^ 0xC04);
    let edge = args.num("edge", 0) != 0;
    let nruns = args.num("runs", 0);
    if nruns > 0 {
        runs(&mut out, &mut r, nruns, args.num("long", 50));
    }

    for mi in 0..machines {
        let m128 = mi % 2 == 1;
        let bank3 = if m128 { (mi / 2 % 8) as u8 } else { 0 };
        let rom = ((mi / 16) % 2) as u8;
        let mut m = Machine::new(m128, r.below(1 << 20) as u32, bank3, rom);
        out.ev(json!({"ev":"reset","m": if m128 {128} else {48}, "banks": m.banks()}));
        let mut n = 0;
        while n < steps {
            // restore the cells touched by the previous case so that the overlay stays small
            let touched: Vec<u16> = m.overlay.keys().copied().collect();
            for a in touched {
                let b = base_mem(m.seed, a);
                m.emu.verif_bus_write(a, b);
            }
            m.sync();
            if m.overlay.len() > 40 {
                break;
            }
            // CPU state: registers point into every window with equal probability
            let mut init = CpuInit::random(&mut r);
            init.pc = addr_any(&mut r);
            init.sp = addr_any(&mut r);
            init.hl = addr_any(&mut r);
            if r.chance(1, 2) {
                init.bc = addr_any(&mut r);
            }
            init.de = addr_any(&mut r);
            init.ix = addr_any(&mut r);
            init.iy = addr_any(&mut r);
            init.i = (addr_any(&mut r) >> 8) as u8;
            // port high byte for IN A,(n) / OUT (n),A
            init.af = (init.af & 0x00FF) | (addr_any(&mut r) & 0xFF00);
            // half of the port instructions address a port with low byte 0xCC (claimed by the extender, where one is installed)
            let port_cc = r.chance(1, 2);
            if port_cc {
                init.bc = (init.bc & 0xFF00) | 0x00CC;
            }
            init.apply(m.emu.verif_cpu());
            // the instruction: page and opcode uniform; placed only when PC is in RAM
            if init.pc >= 0x4000 {
                // a third of the cases come from the encodings whose cycle lists put a register-derived address on the
                // bus during internal T-states or port cycles (IR, HL, DE, BC, SP, indexed), where the contention model has
                // the most cases per instruction
                const SPECIAL: [(u64, u8); 64] = [
                    (2, 0x47), (2, 0x4F), (2, 0x57), (2, 0x5F), (0, 0x09), (0, 0x19), (0, 0x29), (0, 0x39), (0, 0x03), (0, 0x0B),
                    (0, 0x33), (0, 0x3B), (0, 0xF9), (0, 0xE3), (3, 0xE3), (0, 0xC5), (0, 0xF5), (3, 0xE5), (0, 0x10), (0, 0x18),
                    (0, 0x20), (0, 0x34), (0, 0x35), (3, 0x34), (4, 0x35), (3, 0x36), (3, 0x46), (4, 0x77), (3, 0x86), (1, 0x06),
                    (1, 0x46), (1, 0x86), (1, 0xC6), (2, 0x67), (2, 0x6F), (2, 0xA0), (2, 0xA1), (2, 0xA2), (2, 0xA3), (2, 0xA8),
                    (2, 0xA9), (2, 0xAA), (2, 0xAB), (2, 0xB0), (2, 0xB1), (2, 0xB2), (2, 0xB3), (2, 0xB8), (2, 0xB9), (2, 0xBA),
                    (2, 0xBB), (0, 0xDB), (0, 0xD3), (2, 0x40), (2, 0x41), (2, 0x78), (2, 0x79), (2, 0x70), (2, 0x71), (2, 0x4A),
                    (2, 0x42), (3, 0x09), (0, 0xCD), (0, 0xC7),
                ];
                // ... and a sixth from the encodings with a 16-bit operand address: the operand is drawn like the registers, so that
                // the word read or written lies across a window boundary as often as they do
                const NN: [(u64, u8); 20] = [
                    (0, 0x2A), (0, 0x22), (0, 0x3A), (0, 0x32), (2, 0x4B), (2, 0x5B), (2, 0x6B), (2, 0x7B), (2, 0x43), (2, 0x53),
                    (2, 0x63), (2, 0x73), (3, 0x2A), (3, 0x22), (4, 0x2A), (4, 0x22), (0, 0xC3), (0, 0xCD), (0, 0x01), (3, 0x21),
                ];
                let nn = r.chance(1, 6);
                let (page, op) = if nn { *r.pick(&NN) } else if r.chance(1, 3) { *r.pick(&SPECIAL) } else if r.chance(1, 6) { (5 + r.below(2), r.u8()) } else { (r.below(7), r.u8()) };
                let mut bytes: Vec<u8> = match page {
                    0 if port_cc && (op == 0xDB || op == 0xD3) => vec![op, 0xCC],
                    0 => vec![op],
                    1 => vec![0xCB, op],
                    2 => vec![0xED, op],
                    3 => vec![0xDD, op],
                    4 => vec![0xFD, op],
                    5 => vec![0xDD, 0xCB, r.u8(), op],
                    _ => vec![0xFD, 0xCB, r.u8(), op],
                };
                if nn {
                    let a = addr_any(&mut r);
                    bytes.push(a as u8);
                    bytes.push((a >> 8) as u8);
                }
                for (k, b) in bytes.iter().enumerate() {
                    m.emu.verif_bus_write(init.pc.wrapping_add(k as u16), *b);
                }
                m.sync();
            }
            let t = pick_t(&mut r, m128, edge);
            m.goto_t(t);
            // a short chain: the first call from the constructed state, then wherever it leads
            for k in 0..(1 + r.below(3)) {
                let pre = cpu_state(m.emu.verif_cpu());
                let env = m.env();
                let t0 = m.emu.verif_frame_clocks();
                step(&mut m.emu);
                let t1 = m.emu.verif_frame_clocks();
                let post = cpu_state(m.emu.verif_cpu());
                m.sync();
                out.ev(json!({"ev":"mstep","tag":format!("{mi}/{n}+{k}"),"t0":t0,"t1":t1,"pre":pre,"env":env,"post":post}));
                n += 1;
            }
        }
    }
    let n = out.finish();
    eprintln!("timing: {n} events");
}
