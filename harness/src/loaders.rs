//! C15: loaders fed with spec-enumerated malformed shapes, mutated and random byte strings, and
//! assets that fail at every request index. Panics, hangs and allocation size are recorded as data.
use crate::files::*;
use crate::host::*;
use crate::tape::{good_block, tap_bytes};
use crate::util::*;
use rustzx_core::host::{Screen, Snapshot, Tape};
use serde_json::{json, Value};
use std::alloc::{GlobalAlloc, Layout, System};
use std::io::Write;
use std::sync::atomic::{AtomicUsize, Ordering};

// ---------------------------------------------------------------- counting allocator
pub struct Counting;
pub static CUR: AtomicUsize = AtomicUsize::new(0);
pub static PEAK: AtomicUsize = AtomicUsize::new(0);
pub static BIGGEST: AtomicUsize = AtomicUsize::new(0);
/// index of the case being run and the raw fd of the output file: an allocation request beyond the hard
/// limit cannot be served (and an allocation failure aborts the process), so the allocator itself records
/// the case as outcome "alloc" and ends the process; the driver restarts the harness behind that case
pub static CASE_IDX: AtomicUsize = AtomicUsize::new(usize::MAX);
pub static OUT_FD: std::sync::atomic::AtomicI32 = std::sync::atomic::AtomicI32::new(-1);

fn record_huge(size: usize) -> ! {
    use std::os::unix::io::FromRawFd;
    let fd = OUT_FD.load(Ordering::SeqCst);
    let idx = CASE_IDX.load(Ordering::SeqCst);
    if fd >= 0 && idx != usize::MAX {
        // formatted on the stack: no allocation is possible here
        let mut buf = [0u8; 200];
        let mut n = 0;
        let mut put = |b: &[u8], n: &mut usize| {
            for x in b {
                buf[*n] = *x;
                *n += 1;
            }
        };
        let num = |mut v: usize, out: &mut [u8; 24]| -> usize {
            let mut i = 24;
            if v == 0 {
                i -= 1;
                out[i] = b'0';
            }
            while v > 0 {
                i -= 1;
                out[i] = b'0' + (v % 10) as u8;
                v /= 10;
            }
            i
        };
        let mut tmp = [0u8; 24];
        put(b"{\"ev\":\"case\",\"idx\":", &mut n);
        let i = num(idx, &mut tmp);
        put(&tmp[i..], &mut n);
        put(b",\"what\":\"\",\"kind\":\"\",\"outcome\":\"alloc\",\"detail\":\"allocation request beyond 1 GiB\",\"post\":\"none\",\"size\":0,\"alloc\":", &mut n);
        let i = num(size.min(2_000_000_000), &mut tmp);
        put(&tmp[i..], &mut n);
        put(b"}\n", &mut n);
        let mut f = unsafe { std::fs::File::from_raw_fd(fd) };
        let _ = f.write_all(&buf[..n]);
        std::mem::forget(f);
    }
    std::process::exit(4)
}
/// requests above this size are refused (the loader under test sees an allocation failure => abort),
/// so the harness first records the request; a limit of 1 GiB keeps the sandbox alive
const HARD_LIMIT: usize = 1 << 30;

unsafe impl GlobalAlloc for Counting {
    unsafe fn alloc(&self, l: Layout) -> *mut u8 {
        BIGGEST.fetch_max(l.size(), Ordering::Relaxed);
        if l.size() > HARD_LIMIT {
            record_huge(l.size());
        }
        let c = CUR.fetch_add(l.size(), Ordering::Relaxed) + l.size();
        PEAK.fetch_max(c, Ordering::Relaxed);
        System.alloc(l)
    }
    unsafe fn dealloc(&self, p: *mut u8, l: Layout) {
        CUR.fetch_sub(l.size(), Ordering::Relaxed);
        System.dealloc(p, l)
    }
    unsafe fn alloc_zeroed(&self, l: Layout) -> *mut u8 {
        BIGGEST.fetch_max(l.size(), Ordering::Relaxed);
        if l.size() > HARD_LIMIT {
            record_huge(l.size());
        }
        let c = CUR.fetch_add(l.size(), Ordering::Relaxed) + l.size();
        PEAK.fetch_max(c, Ordering::Relaxed);
        System.alloc_zeroed(l)
    }
}

fn begin_case() -> usize {
    let c = CUR.load(Ordering::Relaxed);
    PEAK.store(c, Ordering::Relaxed);
    BIGGEST.store(0, Ordering::Relaxed);
    c
}
fn extra_alloc(base: usize) -> usize {
    PEAK.load(Ordering::Relaxed).saturating_sub(base).max(BIGGEST.load(Ordering::Relaxed))
}

// ---------------------------------------------------------------- concretisation of shapes
fn sample_desc(r: &mut Rng, m128: bool) -> MachineDesc {
    let mut banks: Vec<Vec<u8>> = (0..8).map(|_| vec![0u8; 16384]).collect();
    banks[2][0] = 0x18;
    banks[2][1] = 0xFE;
    banks[5][100] = r.u8();
    MachineDesc {
        m128,
        cpu: CpuDesc { af: r.u16(), bc: 0, de: 0, hl: 0, af_: 0, bc_: 0, de_: 0, hl_: 0, ix: 0, iy: 0, sp: 0xBFF0, pc: 0x8000,
                       i: 0, r: 0, iff1: false, iff2: false, im: 1 },
        border: 1,
        latch: 0,
        banks,
    }
}

fn szx_chunk_bytes(r: &mut Rng, c: &Value, m128: bool) -> Vec<u8> {
    let id = c["id"].as_str().unwrap();
    let var = c["var"].as_u64().unwrap();
    let d = sample_desc(r, m128);
    let (idb, mut data): ([u8; 4], Vec<u8>) = match id {
        "Z80R" | "z80r" => {
            let full = szx(&d, &SzxOpts::default());
            let mut v = full[16..16 + 37].to_vec();
            match var { 1 => v[28] = 3, 2 => v[28] = 255, 3 => { v[29..33].copy_from_slice(&[0xFF; 4]); } _ => {} }
            (if id == "Z80R" { *b"Z80R" } else { *b"z80r" }, v)
        }
        "SPCR" => (*b"SPCR", vec![[1u8, 8, 255, 7][var as usize], [0u8, 0x27, 0xFF, 0x10][var as usize], 0, [1u8, 0xFF, 0, 0x1F][var as usize], 0, 0, 0, 0]),
        "RAMP" => {
            let page = [5u8, 8, 255, 2, 3, 7, 0, 2, 5][var as usize];
            let mut v = vec![];
            match var {
                6 | 7 | 8 => {
                    // compressed page whose stream inflates to more than a page / more than 64 KiB / 16 MiB
                    v.extend(1u16.to_le_bytes()); v.push(page);
                    v.extend(miniz_oxide::deflate::compress_to_vec_zlib(&vec![0u8; [16385usize, 70_000, 16 << 20][var as usize - 6]], 6));
                }
                0 | 1 | 2 | 4 | 5 => { v.extend(0u16.to_le_bytes()); v.push(page); v.extend(vec![0xAAu8; 16384]); }
                _ => {
                    // compressed page whose stream inflates to fewer than 16384 bytes
                    v.extend(1u16.to_le_bytes()); v.push(page);
                    v.extend(miniz_oxide::deflate::compress_to_vec_zlib(&vec![7u8; 100], 6));
                }
            }
            (*b"RAMP", v)
        }
        "AY" => (*b"AY\0\0", { let mut v = vec![[0u8, 2, 0xFF, 0][var as usize], [0u8, 15, 16, 255][var as usize]]; v.extend((0..16).map(|k| k as u8 * 17)); v }),
        "KEYB" => (*b"KEYB", vec![0, 0, 0, 0, [0u8, 1, 2, 255][var as usize]]),
        "AMXM" => (*b"AMXM", vec![[0u8, 1, 2, 255][var as usize], 0, 0, 0, 0, 0, 0]),
        "CRTR" => (*b"CRTR", { let mut v = vec![b'x'; 37]; if var == 1 { v[3] = 0xFF; v[4] = 0xFE; } v }),
        "nonutf8" => ([0xFF, 0xFE, 0x80, 0x81], vec![1, 2, 3]),
        _ => (*b"JUNK", vec![9; 5]),
    };
    let decl = c["decl"].as_str().unwrap();
    let declared: u32 = match decl {
        "exact" => data.len() as u32,
        "short1" => { if !data.is_empty() { data.pop(); } data.len() as u32 }
        "zero" => { data.clear(); 0 }
        "over" => data.len() as u32 + 1000,
        _ => 0xFFFF_FFF0,
    };
    let mut out = idb.to_vec();
    out.extend(declared.to_le_bytes());
    out.extend(data);
    out
}

/// returns (kind of loader, bytes, machine 128?)
fn concretise(r: &mut Rng, s: &Value) -> (String, Vec<u8>, bool) {
    let fmt = s["fmt"].as_str().unwrap();
    match fmt {
        "sna" => {
            let size = s["size"].as_u64().unwrap() as usize;
            let m128 = size > 49179;
            let d = sample_desc(r, m128);
            let mut b = if m128 { sna128(&d) } else { sna48(&d) };
            b.resize(size, 0x5A);
            if b.len() > 26 {
                b[25] = s["im"].as_u64().unwrap() as u8;
                b[26] = s["border"].as_u64().unwrap() as u8;
            }
            if b.len() > 49181 {
                b[49181] = s["latch"].as_u64().unwrap() as u8;
            }
            ("sna".into(), b, m128)
        }
        "szx" => {
            let mid = s["mid"].as_u64().unwrap() as u8;
            let m128 = mid == 2;
            let mut b: Vec<u8> = match s["magic"].as_str().unwrap() {
                "ok" => b"ZXST".to_vec(),
                "bad" => b"ZXSU".to_vec(),
                "nonutf8" => vec![0xFF, 0xFE, 0xFD, 0xFC],
                _ => b"ZX".to_vec(),
            };
            if b.len() == 4 {
                b.extend([1, 4, mid, 0]);
            }
            for c in s["chunks"].as_array().unwrap() {
                b.extend(szx_chunk_bytes(r, c, m128));
            }
            ("szx".into(), b, m128)
        }
        "tap" => {
            let mut b = vec![];
            for blk in s["blocks"].as_array().unwrap() {
                let decl = blk["decl"].as_u64().unwrap() as usize;
                b.extend((decl as u16).to_le_bytes());
                let have = match blk["have"].as_str().unwrap() { "all" => decl, "none" => 0, "one" => 1.min(decl), _ => decl / 2 };
                let body: Vec<u8> = if decl >= 2 && have == decl { good_block(0xFF, &r.bytes(decl - 2)) } else { r.bytes(have) };
                b.extend(body);
            }
            for _ in 0..s["tail"].as_u64().unwrap() {
                b.push(0x13);
            }
            ("tap".into(), b, false)
        }
        "scr" => ("scr".into(), r.bytes(s["size"].as_u64().unwrap() as usize), false),
        "rom" => {
            // encoded as: number of pages, size of the last one
            let pages = s["pages"].as_u64().unwrap() as usize;
            let last = s["last"].as_u64().unwrap() as usize;
            let mut b = vec![pages as u8];
            b.extend((last as u16).to_le_bytes());
            ("rom".into(), b, pages != 1)
        }
        "vtx" => {
            let mut b: Vec<u8> = s["id"].as_str().unwrap().as_bytes().to_vec();
            b.push(s["stereo"].as_u64().unwrap() as u8);
            b.extend(0u16.to_le_bytes());
            b.extend(1_773_400u32.to_le_bytes());
            b.push(s["pfreq"].as_u64().unwrap() as u8);
            b.extend(2020u16.to_le_bytes());
            let size = s["size"].as_i64().unwrap();
            let size32: u32 = if size < 0 { 0xFFFF_FFF8 } else { size as u32 };
            b.extend(size32.to_le_bytes());
            for k in 0..s["strings"].as_u64().unwrap() {
                b.extend(format!("s{k}").as_bytes());
                b.push(0);
            }
            match s["body"].as_str().unwrap() {
                "none" => {}
                "garbage" => b.extend(r.bytes(200)),
                _ => {
                    // a real LH5 payload: taken from a repository file
                    let f = std::fs::read("/repo/vtx/src/test/csoon.vtx").unwrap();
                    let mut pos = 16;
                    let mut nul = 0;
                    while nul < 5 { if f[pos] == 0 { nul += 1; } pos += 1; }
                    b.extend(&f[pos..]);
                }
            }
            ("vtx".into(), b, false)
        }
        _ => {
            // gzip wrapper around something
            use flate2::write::GzEncoder;
            let inner: Vec<u8> = match s["inner"].as_str().unwrap() {
                "sna48" => sna48(&sample_desc(r, false)),
                "tap" => tap_bytes(&[good_block(0xFF, &r.bytes(40))]),
                _ => r.bytes(300),
            };
            let mut enc = GzEncoder::new(Vec::new(), flate2::Compression::default());
            match s["kind"].as_str().unwrap() {
                "bomb" => { enc.write_all(&vec![0u8; 20_000_000]).unwrap(); }
                _ => { enc.write_all(&inner).unwrap(); }
            }
            let mut gz = enc.finish().unwrap();
            match s["kind"].as_str().unwrap() {
                "badmagic" => gz[0] = 0x1E,
                "truncated" => gz.truncate(gz.len() / 2),
                "badcrc" => { let n = gz.len(); gz[n - 5] ^= 0xFF; }
                "empty" => gz.clear(),
                _ => {}
            }
            (format!("gzip:{}", s["inner"].as_str().unwrap()), gz, false)
        }
    }
}

// ---------------------------------------------------------------- running one case
struct CaseResult {
    outcome: String,
    detail: String,
    post: String,
    alloc: usize,
}

fn run_case(kind: &str, bytes: &[u8], m128: bool, fault: Fault, chunk: usize, eof_ok0: bool) -> CaseResult {
    let base = begin_case();
    // the host's asset reports the end of the data as an error (BufferCursor) or as a read of 0 bytes (a plain file)
    let mk = |b: &[u8]| VAsset::new(b.to_vec()).with_fault(fault).chunked(chunk).eof_ok0(eof_ok0);
    let mut emu_opt: Option<Emu> = None;
    let res: Result<Result<(), String>, String> = guarded(|| {
        let mut cfg = EmuCfg::new(m128);
        cfg.fastload = true;
        cfg.sound = true;
        cfg.ay = true;
        let mut emu = cfg.build();
        // half of the cases find the machine in the middle of a frame, the beam inside a picture line (a host loads
        // files at breakpoint stops too)
        if bytes.len() % 2 == 1 || bytes.iter().take(40).fold(0u32, |a, b| a.wrapping_mul(31).wrapping_add(*b as u32)) % 2 == 1 {
            emu.verif_wait(14336 + 100 * 224 + 77);
        }
        let r: Result<(), String> = match kind {
            "sna" => emu.load_snapshot(Snapshot::Sna(mk(bytes))).map_err(|e| format!("{e:?}")),
            "szx" => emu.load_snapshot(Snapshot::Szx(mk(bytes))).map_err(|e| format!("{e:?}")),
            "scr" => emu.load_screen(Screen::Scr(mk(bytes))).map_err(|e| format!("{e:?}")),
            "tap" => emu.load_tape(Tape::Tap(DynAsset::of(mk(bytes)))).map_err(|e| format!("{e:?}")),
            "rom" => {
                let pages = bytes[0] as usize;
                let last = u16::from_le_bytes([bytes[1], bytes[2]]) as usize;
                let mut v = std::collections::VecDeque::new();
                for p in 0..pages {
                    v.push_back(vec![0x76u8; if p + 1 == pages { last } else { 16384 }]);
                }
                emu.load_rom(VRomSet { pages: v, chunk: 0 }).map_err(|e| format!("{e:?}"))
            }
            "vtx" => {
                match vtx::Vtx::load(std::io::Cursor::new(bytes.to_vec())) {
                    Ok(v) => {
                        // a loaded track must also be playable
                        let mut pl = vtx::player::PrecisePlayer::new(v, 44100, true);
                        let mut buf = vec![0i16; 4096];
                        for _ in 0..4 {
                            pl.play(&mut buf);
                        }
                        Ok(())
                    }
                    Err(e) => Err(format!("{e:?}")),
                }
            }
            k if k.starts_with("gzip") => {
                match rustzx_utils::io::GzipAsset::new(std::io::Cursor::new(bytes.to_vec())) {
                    Ok(a) => {
                        if k.ends_with("tap") {
                            emu.load_tape(Tape::Tap(DynAsset::of(a))).map_err(|e| format!("{e:?}"))
                        } else {
                            emu.load_snapshot(Snapshot::Sna(a)).map_err(|e| format!("{e:?}"))
                        }
                    }
                    Err(e) => Err(format!("gzip: {e}")),
                }
            }
            _ => unreachable!(),
        };
        emu_opt = Some(emu);
        r
    });
    let (outcome, detail) = match &res {
        Ok(Ok(())) => ("ok".to_string(), String::new()),
        Ok(Err(e)) => ("err".to_string(), e.clone()),
        Err(p) => ("panic".to_string(), p.clone()),
    };
    let alloc = extra_alloc(base);
    // "After either outcome the emulator still emulates further frames without panicking"
    let post = if let Some(mut emu) = emu_opt {
        let r = guarded(|| {
            emu.set_debug_interface(VDebug::Never);
            emu.set_speed(rustzx_core::EmulationMode::FrameCount(1));
            if kind == "tap" || kind == "gzip:tap" {
                // fast-load requests first (three, rotating through destinations in the middle of RAM, across and
                // exactly up to the top of memory, LOAD and VERIFY, both usual flag bytes), then the tape in real time
                const PLANS: [(u16, u16, u16); 6] = [
                    (0xFF01, 0x8000, 0x0100),
                    (0xFF01, 0xFFF0, 0x0100),
                    (0x0001, 0xFFEF, 0x0011),
                    (0xFF01, 0xFED6, 0x012A),
                    (0xFF00, 0xFFF8, 0x0008),
                    (0x0001, 0x8000, 0xFFFF),
                ];
                let h = bytes.iter().take(64).fold(bytes.len(), |a, b| a.wrapping_mul(31).wrapping_add(*b as usize));
                for k in 0..3 {
                    let (af, ix, de) = PLANS[(h + k) % PLANS.len()];
                    poke_bytes(&mut emu, 0x5B80, &[0xCD, 0x56, 0x05, 0x18, 0xFE]);
                    let c = emu.verif_cpu();
                    c.regs.set_af(af);
                    c.regs.set_ix(ix);
                    c.regs.set_de(de);
                    c.regs.set_sp(0x5BFE);
                    c.regs.set_pc(0x5B80);
                    c.regs.set_iff1(false);
                    c.halted = false;
                    for _ in 0..2 {
                        let _ = emu.emulate_frames(std::time::Duration::from_secs(100));
                    }
                }
                emu.play_tape();
            }
            let mut err = None;
            for _ in 0..20 {
                if let Err(e) = emu.emulate_frames(std::time::Duration::from_secs(100)) {
                    err = Some(format!("{e:?}"));
                    break;
                }
            }
            // ... and a program that talks to every device the file may have set up: it reads the AY data port and writes
            // it back, reads the keyboard, the Kempston joystick and the mouse ports, writes the ULA port, in a loop
            if err.is_none() && kind != "vtx" {
                const PROBE: [u8; 28] = [
                    0xF3, 0x01, 0xFD, 0xFF, 0xED, 0x78, 0x06, 0xBF, 0xED, 0x79, 0x01, 0xFE, 0x7F, 0xED, 0x78, 0xED, 0x79, 0xDB, 0x1F,
                    0x01, 0xDF, 0xFB, 0xED, 0x78, 0x04, 0x04, 0x18, 0xE5,
                ];
                poke_bytes(&mut emu, 0x8000, &PROBE);
                let c = emu.verif_cpu();
                c.regs.set_pc(0x8000);
                c.regs.set_sp(0xBFF0);
                c.halted = false;
                for _ in 0..3 {
                    if let Err(e) = emu.emulate_frames(std::time::Duration::from_secs(100)) {
                        err = Some(format!("{e:?}"));
                        break;
                    }
                }
            }
            err
        });
        match r {
            Ok(None) => "ok".to_string(),
            Ok(Some(e)) => format!("err:{e}"),
            Err(p) => format!("panic:{p}"),
        }
    } else {
        "none".to_string()
    };
    CaseResult { outcome, detail, post, alloc }
}

pub fn run(args: &Args) {
    let seed = args.num("seed", 1);
    let from = args.num("from", 0) as usize;
    let out_path = args.str("out", "-");
    // append mode: the driver restarts the harness after a watchdog exit
    let file = std::fs::OpenOptions::new().create(true).append(true).open(&out_path).expect("out");
    {
        use std::os::unix::io::AsRawFd;
        OUT_FD.store(file.as_raw_fd(), Ordering::SeqCst);
    }
    // line-at-a-time writes: whatever ends the process, completed cases are on disk
    let file = std::sync::Arc::new(std::sync::Mutex::new(std::io::LineWriter::new(file)));
    let current = std::sync::Arc::new(std::sync::Mutex::new((0usize, String::new(), std::time::Instant::now())));
    // watchdog: a case that runs longer than 10 s is a hang; it is recorded and the process ends
    {
        let (file, current) = (file.clone(), current.clone());
        std::thread::spawn(move || loop {
            std::thread::sleep(std::time::Duration::from_millis(500));
            let c = current.lock().unwrap();
            if !c.1.is_empty() && c.2.elapsed().as_secs() >= 5 {
                let mut f = file.lock().unwrap();
                let kind = c.1.split(':').nth(if c.1.starts_with("shape:") { 99 } else { 1 }).unwrap_or("").to_string();
                let kind = if kind.is_empty() { c.1.split("\"fmt\":\"").nth(1).and_then(|x| x.split('"').next()).unwrap_or("?").to_string() } else { kind };
                let _ = writeln!(f, "{}", json!({"ev":"case","idx":c.0,"what":c.1,"kind":kind,"outcome":"hang","detail":"no result within 5 s","post":"none","alloc":0,"size":0}));
                let _ = f.flush();
                std::process::exit(3);
            }
        });
    }
    let mut cases: Vec<(String, String, Vec<u8>, bool, Fault, usize)> = vec![];
    // (a) spec-enumerated shapes
    if let Ok(text) = std::fs::read_to_string(args.str("shapes", "")) {
        let mut r = Rng::new(seed ^ 0xC15);
        for line in text.lines() {
            let s: Value = serde_json::from_str(line).unwrap();
            let (kind, bytes, m128) = concretise(&mut r, &s);
            cases.push((format!("shape:{line}"), kind, bytes, m128, Fault::None, 0));
        }
    }
    // (b) fault at every request index on small well-formed files
    {
        let mut r = Rng::new(seed ^ 0xFA17);
        let d48 = sample_desc(&mut r, false);
        let d128 = sample_desc(&mut r, true);
        let files: Vec<(&str, Vec<u8>, bool)> = vec![
            ("sna", sna48(&d48), false),
            ("sna", sna128(&d128), true),
            ("szx", szx(&d48, &SzxOpts { compressed: true, ay: Some((1, [3; 16])), mouse: Some(2), ..Default::default() }), false),
            ("szx", szx(&d128, &SzxOpts::default()), true),
            ("scr", r.bytes(6912), false),
            ("tap", tap_bytes(&[good_block(0, &r.bytes(17)), good_block(0xFF, &r.bytes(300)), good_block(0xFF, &r.bytes(50))]), false),
        ];
        if args.num("faults", 1) != 0 {
            for (kind, bytes, m128) in files.iter() {
                for k in 0..120 {
                    for f in [Fault::ErrAt(k), Fault::ZeroAt(k)] {
                        cases.push((format!("fault:{kind}:{f:?}"), kind.to_string(), bytes.clone(), *m128, f, 0));
                    }
                }
                cases.push((format!("chunk1:{kind}"), kind.to_string(), bytes.clone(), *m128, Fault::None, 1));
            }
        }
        // (d) field sweep: every structural byte of well-formed files (headers, chunk sizes, the first bytes of every
        // chunk's data, block lengths) set to each boundary value in turn
        if args.num("fields", 1) != 0 {
            const VALS: [u8; 12] = [0, 1, 2, 3, 7, 8, 9, 0x10, 0x7F, 0x80, 0xFE, 0xFF];
            let mut sweep: Vec<(&str, Vec<u8>, bool, Vec<usize>)> = vec![];
            let szx_offsets = |b: &[u8]| {
                let mut offs: Vec<usize> = (4..8).collect();
                let mut p = 8;
                while p + 8 <= b.len() {
                    let size = u32::from_le_bytes([b[p + 4], b[p + 5], b[p + 6], b[p + 7]]) as usize;
                    // (every byte of the CPU chunk, the first 8 data bytes of the others)
                    let lim = if &b[p..p + 4] == b"Z80R" { size } else { 8 };
                    offs.extend(p + 4..(p + 8 + lim).min(p + 8 + size).min(b.len()));
                    p += 8 + size;
                }
                offs
            };
            for (d, m128) in [(&d48, false), (&d128, true)] {
                for compressed in [true, false] {
                    if m128 && !compressed {
                        continue;
                    }
                    let b = szx(d, &SzxOpts { compressed, ay: Some((1, [3; 16])), mouse: Some(2), ..Default::default() });
                    let o = szx_offsets(&b);
                    sweep.push(("szx", b, m128, o));
                }
            }
            sweep.push(("sna", sna48(&d48), false, (0..27).collect()));
            sweep.push(("sna", sna128(&d128), true, (0..27).chain(49179..49183).collect()));
            // the same with interrupts enabled in every interrupt mode: the frames emulated after the load take interrupts
            // with whatever the swept field has made of I, SP, the mode ...
            for im in 0..3u8 {
                let mut e48 = d48.clone();
                e48.cpu.iff1 = true;
                e48.cpu.iff2 = true;
                e48.cpu.im = im;
                let mut e128 = d128.clone();
                e128.cpu.iff1 = true;
                e128.cpu.iff2 = true;
                e128.cpu.im = im;
                sweep.push(("sna", sna48(&e48), false, vec![0, 19, 20, 23, 24, 25]));
                sweep.push(("sna", sna128(&e128), true, vec![0, 19, 20, 23, 24, 25]));
                let bz = szx(&e48, &SzxOpts::default());
                let oz: Vec<usize> = szx_offsets(&bz).into_iter().filter(|o| (8 + 8 + 20..8 + 8 + 37).contains(o)).collect();
                sweep.push(("szx", bz, false, oz));
            }
            let tp = tap_bytes(&[good_block(0, &r.bytes(17)), good_block(0xFF, &r.bytes(30))]);
            sweep.push(("tap", tp, false, vec![0, 1, 2, 3, 21, 22, 23]));
            for (kind, bytes, m128, offs) in sweep {
                for o in offs {
                    for v in VALS {
                        if bytes[o] == v {
                            continue;
                        }
                        let mut b = bytes.clone();
                        b[o] = v;
                        cases.push((format!("field:{kind}:{}:{o}={v}", if m128 { 128 } else { 48 }), kind.to_string(), b, m128, Fault::None, 0));
                    }
                }
            }
        }
        // (c) mutated and random byte strings
        let n = args.num("random", 0);
        for i in 0..n {
            let (kind, base, m128) = &files[(i % files.len() as u64) as usize];
            let mut b = base.clone();
            match r.below(4) {
                0 => {
                    for _ in 0..1 + r.below(8) {
                        let p = r.below(b.len().min(64) as u64) as usize; // headers are where the structure is
                        b[p] = r.u8();
                    }
                }
                1 => {
                    for _ in 0..1 + r.below(20) {
                        let p = r.below(b.len() as u64) as usize;
                        b[p] = r.byte_b();
                    }
                }
                2 => b.truncate(r.below(b.len() as u64 + 1) as usize),
                _ => {
                    let n = r.below(2000) as usize;
                    b = r.bytes(n);
                }
            }
            cases.push((format!("mut:{kind}:{i}"), kind.to_string(), b, *m128, Fault::None, 0));
        }
        // vtx and gzip get their own mutations
        let vt = std::fs::read("/repo/vtx/src/test/sil00.vtx").unwrap_or_default();
        for i in 0..n / 4 {
            let mut b = vt.clone();
            if b.is_empty() { break; }
            for _ in 0..1 + r.below(6) {
                let p = r.below(b.len().min(80) as u64) as usize;
                b[p] = r.u8();
            }
            if r.chance(1, 4) { b.truncate(r.below(b.len() as u64) as usize); }
            cases.push((format!("mut:vtx:{i}"), "vtx".into(), b, false, Fault::None, 0));
        }
    }
    let dump = args.num("dump", u64::MAX) as usize;
    let (part, parts) = (args.num("part", 0), args.num("parts", 1).max(1));
    let mut n = 0;
    for (idx, (what, kind, bytes, m128, fault, chunk)) in cases.iter().enumerate() {
        if idx == dump {
            std::fs::write("/tmp/case.bin", bytes).unwrap();
            eprintln!("dumped {what} {kind} {} bytes", bytes.len());
            return;
        }
        if idx < from || idx as u64 % parts != part {
            continue;
        }
        *current.lock().unwrap() = (idx, what.clone(), std::time::Instant::now());
        CASE_IDX.store(idx, Ordering::SeqCst);
        let eof_ok0 = (idx / 3) % 2 == 1;
        let r = run_case(kind, bytes, *m128, *fault, *chunk, eof_ok0);
        CASE_IDX.store(usize::MAX, Ordering::SeqCst);
        *current.lock().unwrap() = (idx, String::new(), std::time::Instant::now());
        let mut f = file.lock().unwrap();
        writeln!(f, "{}", json!({"ev":"case","idx":idx,"what":what,"kind":kind,"outcome":r.outcome,"detail":r.detail,"post":r.post,
                                 "alloc":r.alloc,"size":bytes.len(),"eof0":eof_ok0})).unwrap();
        n += 1;
    }
    file.lock().unwrap().flush().unwrap();
    eprintln!("loaders: {n} cases (of {})", cases.len());
}
