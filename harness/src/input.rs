//! C17: host input events followed by port reads executed by the emulated CPU.
use crate::host::*;
use crate::util::*;
use rustzx_core::zx::{
    joy::{
        kempston::KempstonKey,
        sinclair::{SinclairJoyNum, SinclairKey},
    },
    keys::{CompoundKey, ZXKey},
    mouse::kempston::{KempstonMouseButton, KempstonMouseWheelDirection},
};
use rustzx_core::IterableEnum;
use serde_json::json;

const CODE: u16 = 0x8000; // ED 78 = IN A,(C)

fn read_port(emu: &mut Emu, port: u16) -> u8 {
    let cpu = emu.verif_cpu();
    cpu.regs.set_bc(port);
    cpu.regs.set_pc(CODE);
    step(emu);
    emu.verif_cpu().regs.get_acc()
}

/// the same read made by a block input instruction (INI: the port address is BC before B is decremented; the byte goes
/// to (HL))
fn read_port_ini(emu: &mut Emu, port: u16) -> u8 {
    poke_bytes(emu, CODE + 2, &[0xED, 0xA2]);
    let cpu = emu.verif_cpu();
    cpu.regs.set_bc(port);
    cpu.regs.set_hl(0x9000);
    cpu.regs.set_pc(CODE + 2);
    step(emu);
    emu.peek(0x9000)
}

pub fn run(args: &Args) {
    let mut out = Out::create(&args.str("out", "-"));
    let seed = args.num("seed", 1);
    let histories = args.num("histories", 20);
    let len = args.num("len", 50);
    let mut r = Rng::new(seed ^ 0xC17);
    let keys: Vec<ZXKey> = ZXKey::iter().collect();
    let ckeys: Vec<CompoundKey> = CompoundKey::iter().collect();
    let sdirs: Vec<SinclairKey> = SinclairKey::iter().collect();
    let kbits: Vec<KempstonKey> = KempstonKey::iter().collect();
    let mbtns: Vec<KempstonMouseButton> = KempstonMouseButton::iter().collect();
    assert_eq!(keys.len(), 40);

    if args.num("pairs", 0) > 0 {
        // every ordered pair of controls that can interact (7 compound keys, 2x5 Sinclair controls, CAPS SHIFT,
        // SPACE and the digits they map to) x both release orders, all eight half-rows read after each change
        #[derive(Clone, Copy)]
        enum Ctl {
            K(usize),
            C(usize),
            S(u64, usize),
        }
        let mut ctl: Vec<Ctl> = (0..7).map(Ctl::C).collect();
        ctl.extend((0..5).map(|d| Ctl::S(1, d)));
        ctl.extend((0..5).map(|d| Ctl::S(2, d)));
        let digits_etc: Vec<usize> = (0..40)
            .filter(|&k| {
                matches!(
                    keys[k],
                    ZXKey::Shift | ZXKey::Space | ZXKey::N0 | ZXKey::N1 | ZXKey::N2 | ZXKey::N3 | ZXKey::N4 | ZXKey::N5 | ZXKey::N6 | ZXKey::N7 | ZXKey::N8 | ZXKey::N9
                )
            })
            .collect();
        assert_eq!(digits_etc.len(), 12);
        ctl.extend(digits_etc.into_iter().map(Ctl::K));
        let mut emu = EmuCfg::new(false).build();
        let mut n = 0u64;
        for &a in &ctl {
            for &b in &ctl {
                for lifo in [false, true] {
                    if n % 64 == 0 {
                        let mut cfg = EmuCfg::new(n % 128 == 64);
                        cfg.kempston = true;
                        emu = cfg.build();
                        poke_bytes(&mut emu, CODE, &[0xED, 0x78]);
                        out.ev(json!({"ev":"reset","kempston":true,"mouse":false,"m":if n % 128 == 64 {128} else {48}}));
                    }
                    n += 1;
                    let mut send = |emu: &mut Emu, c: Ctl, p: bool, out: &mut Out| match c {
                        Ctl::K(k) => {
                            emu.send_key(keys[k], p);
                            out.ev(json!({"ev":"key","k":k,"p":p}));
                        }
                        Ctl::C(k) => {
                            emu.send_compound_key(ckeys[k], p);
                            out.ev(json!({"ev":"ckey","k":k,"p":p}));
                        }
                        Ctl::S(j, d) => {
                            let num = if j == 1 { SinclairJoyNum::Fist } else { SinclairJoyNum::Second };
                            emu.send_sinclair_key(num, sdirs[d], p);
                            out.ev(json!({"ev":"sjoy","j":j,"d":d,"p":p}));
                        }
                    };
                    let scan = |emu: &mut Emu, out: &mut Out| {
                        for row in 0..8 {
                            let p = ((!(1u16 << row) & 0xFF) << 8) | 0xFE;
                            let v = read_port(emu, p);
                            out.ev(json!({"ev":"rd","port":p,"val":v}));
                        }
                    };
                    send(&mut emu, a, true, &mut out);
                    send(&mut emu, b, true, &mut out);
                    scan(&mut emu, &mut out);
                    let (first, second) = if lifo { (b, a) } else { (a, b) };
                    send(&mut emu, first, false, &mut out);
                    scan(&mut emu, &mut out);
                    send(&mut emu, second, false, &mut out);
                    scan(&mut emu, &mut out);
                }
            }
        }
    }

    for h in 0..histories {
        let m128 = h % 5 == 4;
        let mouse = h % 2 == 1;
        let mut cfg = EmuCfg::new(m128);
        cfg.kempston = true;
        cfg.mouse = mouse;
        let mut emu = cfg.build();
        poke_bytes(&mut emu, CODE, &[0xED, 0x78]);
        // keep the beam in the top border: nothing here reads the floating bus, but stay clear
        out.ev(json!({"ev":"reset","kempston":true,"mouse":mouse,"m":if m128 {128} else {48}}));
        if mouse {
            let (b, x, y) = (read_port(&mut emu, 0xFADF), read_port(&mut emu, 0xFBDF), read_port(&mut emu, 0xFFDF));
            out.ev(json!({"ev":"learn","buttons":b,"x":x,"y":y}));
        }
        // a small set of "hot" controls per history makes overlaps between sources likely
        let hot: Vec<usize> = (0..6).map(|_| r.below(40) as usize).collect();
        for step_i in 0..len {
            // now and then the host does something that is not an input event - it loads a snapshot (a program is started
            // while keys are down) or switches the sound: what is held stays held, by the source that holds it
            if r.chance(1, 10) {
                use crate::files::*;
                use rustzx_core::host::Snapshot;
                let op = r.below(4);
                let d = MachineDesc { m128, cpu: CpuDesc { pc: CODE, sp: 0xBF00, im: 1, ..Default::default() }, border: 1, latch: 0, banks: vec![vec![0u8; 16384]; 8] };
                match op {
                    0 => emu.load_snapshot(Snapshot::Sna(VAsset::new(if m128 { sna128(&d) } else { sna48(&d) }))).expect("sna"),
                    1 => emu.load_snapshot(Snapshot::Szx(VAsset::new(szx(&d, &SzxOpts::default())))).expect("szx"),
                    2 => emu.set_sound(r.chance(1, 2)),
                    _ => emu.set_ay_enabled(r.chance(1, 2)),
                }
                poke_bytes(&mut emu, CODE, &[0xED, 0x78]);
                out.ev(json!({"ev":"hostop","op":op}));
            }
            match r.below(if mouse { 9 } else { 6 }) {
                0 | 1 => {
                    let k = if r.chance(2, 3) {
                        *r.pick(&[0usize, 15, 16, 17, 18, 19, 20, 21, 22, 23, 24, 35])
                    } else {
                        *r.pick(&hot)
                    };
                    let p = r.chance(3, 5);
                    emu.send_key(keys[k], p);
                    out.ev(json!({"ev":"key","k":k,"p":p}));
                }
                2 => {
                    let k = r.below(7) as usize;
                    let p = r.chance(3, 5);
                    emu.send_compound_key(ckeys[k], p);
                    out.ev(json!({"ev":"ckey","k":k,"p":p}));
                }
                3 | 4 => {
                    let j = 1 + r.below(2);
                    let d = r.below(5) as usize;
                    let p = r.chance(3, 5);
                    let num = if j == 1 { SinclairJoyNum::Fist } else { SinclairJoyNum::Second };
                    emu.send_sinclair_key(num, sdirs[d], p);
                    out.ev(json!({"ev":"sjoy","j":j,"d":d,"p":p}));
                }
                5 => {
                    let b = r.below(8) as usize;
                    let p = r.chance(3, 5);
                    emu.send_kempston_key(kbits[b], p);
                    out.ev(json!({"ev":"kjoy","b":b,"p":p}));
                }
                6 => {
                    let b = r.below(4) as usize;
                    let p = r.chance(1, 2);
                    emu.send_mouse_button(mbtns[b], p);
                    out.ev(json!({"ev":"mbtn","b":b,"p":p}));
                }
                7 => {
                    let up = r.chance(1, 2);
                    emu.send_mouse_wheel(if up { KempstonMouseWheelDirection::Up } else { KempstonMouseWheelDirection::Down });
                    out.ev(json!({"ev":"mwheel","d": if up {1} else {-1}}));
                }
                _ => {
                    let x = *r.pick(&[-128i8, -127, -1, 0, 1, 2, 100, 127]);
                    let y = *r.pick(&[-128i8, -127, -1, 0, 1, 2, 100, 127]);
                    emu.send_mouse_pos_diff(x, y);
                    out.ev(json!({"ev":"mmove","x":x,"y":y}));
                }
            }
            // scan: the eight single half-rows, random multi-row selectors (all 256 every 10th event),
            // and the joystick / mouse ports of this configuration
            let mut ports: Vec<u16> = (0..8).map(|row| ((!(1u16 << row) & 0xFF) << 8) | 0xFE).collect();
            if step_i % 10 == 9 {
                ports.extend((0..256u16).map(|s| (s << 8) | 0xFE));
            } else {
                ports.extend((0..6).map(|_| ((r.u8() as u16) << 8) | *r.pick(&[0xFEu16, 0x7E, 0x00, 0xFC])));
            }
            if mouse {
                ports.extend([0xFADF, 0xFBDF, 0xFFDF, 0x00DF & 0xFEFF, 0x01DF, 0x05DF]);
            } else {
                ports.extend([0x001F, 0xFF1F, 0x0001, 0x5501]);
            }
            // (a third of the scans read with a block input instruction instead of IN A,(C))
            let ini = step_i % 3 == 2;
            for p in ports {
                let v = if ini { read_port_ini(&mut emu, p) } else { read_port(&mut emu, p) };
                out.ev(json!({"ev":"rd","port":p,"val":v}));
            }
        }
    }
    let n = out.finish();
    eprintln!("input: {n} events");
}
