//! C09: OUTs to the ULA port at chosen beam times; per completed frame the writes and the border
//! buffer (runs of equal colour per row).
use crate::files::*;
use crate::host::*;
use crate::util::*;
use rustzx_core::host::Snapshot;
use serde_json::{json, Value};
use std::time::Duration;

const CODE: u16 = 0x8000; // ED 79 ; 18 FE

fn rows(emu: &Emu) -> Vec<Value> {
    let fb = emu.border_buffer();
    (0..fb.h)
        .map(|y| {
            let row = &fb.px[y * fb.w..(y + 1) * fb.w];
            let mut runs: Vec<Value> = vec![];
            let mut c = row[0];
            let mut n = 0;
            for p in row {
                if *p == c {
                    n += 1;
                } else {
                    runs.push(json!([c, n]));
                    c = *p;
                    n = 1;
                }
            }
            runs.push(json!([c, n]));
            json!(runs)
        })
        .collect()
}

fn finish_frame(emu: &mut Emu) {
    finish_frames(emu, 1)
}

fn finish_frames(emu: &mut Emu, n: usize) {
    let cpu = emu.verif_cpu();
    cpu.regs.set_pc(CODE + 2);
    emu.set_debug_interface(VDebug::Never);
    emu.set_speed(rustzx_core::EmulationMode::FrameCount(n));
    emu.emulate_frames(Duration::from_secs(1000)).unwrap();
}

pub fn run(args: &Args) {
    let mut out = Out::create(&args.str("out", "-"));
    let seed = args.num("seed", 1);
    let machines = args.num("machines", 4);
    let frames = args.num("frames", 40);
    let mut r = Rng::new(seed ^ 0xC09);
    for mi in 0..machines {
        let m128 = mi % 2 == 1;
        let frame_len = if m128 { FRAME_128 } else { FRAME_48 };
        let (fp, line) = if m128 { (14362usize, 228usize) } else { (14336usize, 224usize) };
        let mut emu = EmuCfg::new(m128).build();
        poke_bytes(&mut emu, CODE, &[0xED, 0x79, 0x18, 0xFE]);
        {
            let cpu = emu.verif_cpu();
            cpu.regs.set_sp(0xBFF0);
            cpu.regs.set_iff1(false);
        }
        // half of the machines carry a host device that claims exactly port 0x00FE (the program then uses the other even
        // ports): the border of a loaded snapshot is the file's all the same - a load is not a port write
        let ext = mi % 4 >= 2;
        if ext {
            emu.set_io_extender(VExt::new(vec![(0xFFFF, 0x00FE)], 0x5A));
        }
        out.ev(json!({"ev":"reset","m": if m128 {128} else {48},"ext":ext}));
        // "or the border stored in the last loaded snapshot": SZX files keep the border (chBorder) apart from the last value
        // written to port 0xFE (chFe); whatever chFe says, the reported colour is the stored border - right after the
        // load and two frames later (the picture is not judged here)
        for _ in 0..6 {
            let mut banks: Vec<Vec<u8>> = (0..8).map(|_| vec![0u8; 16384]).collect();
            banks[2][..4].copy_from_slice(&[0xED, 0x79, 0x18, 0xFE]);
            let (b, fe) = (r.below(8) as u8, r.u8());
            let d = MachineDesc {
                m128,
                cpu: CpuDesc { af: 0, bc: 0, de: 0, hl: 0, af_: 0, bc_: 0, de_: 0, hl_: 0, ix: 0, iy: 0,
                               sp: 0xBFF0, pc: CODE + 2, i: 0, r: 0, iff1: false, iff2: false, im: 1 },
                border: b,
                latch: 0,
                banks,
            };
            emu.load_snapshot(Snapshot::Szx(VAsset::new(szx(&d, &SzxOpts { fe: Some(fe), ..Default::default() })))).unwrap();
            let at_once = emu.border_color() as u8;
            finish_frame(&mut emu);
            finish_frame(&mut emu);
            // ... and the frame completed after the load shows it over the whole top and bottom border
            let painted: std::collections::BTreeSet<u8> = {
                let fb = emu.border_buffer();
                (0..fb.h).filter(|y| *y < 20 || *y + 20 >= fb.h).flat_map(|y| fb.px[y * fb.w..(y + 1) * fb.w].iter().map(|c| *c as u8).collect::<Vec<u8>>()).collect()
            };
            out.ev(json!({"ev":"szxreport","border":b,"fe":fe,"at_once":at_once,"later":emu.border_color() as u8,"painted":painted}));
        }
        poke_bytes(&mut emu, CODE, &[0xED, 0x79, 0x18, 0xFE]);
        // first frame: a write establishes the colour the next one starts with (before any write or
        // snapshot the statement defines no colour)
        {
            let cpu = emu.verif_cpu();
            cpu.regs.set_bc(if ext { 0x01FE } else { 0x00FE });
            cpu.regs.set_acc(r.u8());
            cpu.regs.set_pc(CODE);
        }
        step(&mut emu);
        finish_frame(&mut emu);
        let mut startcolor = emu.border_color() as u8;
        // the byte of the last port write, and whether a snapshot was loaded since: the first write after a load often
        // repeats the very byte written before it (a loader that sets the same border again)
        let mut last_byte: Option<u8> = None;
        let mut loaded_since = false;
        for f in 0..frames {
            // some frames start from a freshly loaded snapshot with its own border
            if f % 13 == 12 {
                let mut banks: Vec<Vec<u8>> = (0..8).map(|_| vec![0u8; 16384]).collect();
                banks[2][..4].copy_from_slice(&[0xED, 0x79, 0x18, 0xFE]);
                let b = r.below(8) as u8;
                let d = MachineDesc {
                    m128,
                    cpu: CpuDesc { af: 0, bc: 0, de: 0, hl: 0, af_: 0, bc_: 0, de_: 0, hl_: 0, ix: 0, iy: 0,
                                   sp: 0xBFF0, pc: CODE + 2, i: 0, r: 0, iff1: false, iff2: false, im: 1 },
                    border: b,
                    latch: 0,
                    banks,
                };
                let bytes = if m128 { sna128(&d) } else { sna48(&d) };
                // loaded right after a frame boundary: the whole next frame shows the snapshot's border
                emu.load_snapshot(Snapshot::Sna(VAsset::new(bytes))).unwrap();
                out.ev(json!({"ev":"snapshot","border":b}));
                startcolor = b;
                loaded_since = true;
            }
            // plan of writes for this frame (ascending times, at least 13 T apart)
            let kind = r.below(8);
            let mut times: Vec<usize> = match kind {
                0 => vec![],
                1 => vec![r.below(frame_len as u64 - 100) as usize],
                2 => {
                    // several per line on a few lines
                    let y = r.below(230) as usize;
                    let base = fp + y * line - 24 * line - 16;
                    (0..6).map(|k| base + k * (line / 5) + r.below(10) as usize).collect()
                }
                // last T-states of the frame: the OUT ends before the frame does, or its I/O cycle lies across the frame end
                // (the write then belongs to the frame that ends or to the one that begins, depending on the T-state)
                3 => vec![if r.chance(1, 2) { frame_len - 14 - r.below(20) as usize } else { frame_len - 1 - r.below(13) as usize }],
                4 => (0..4).map(|k| fp - 24 * line - 40 + k * 20).collect(),     // around the first visible pixel
                5 => {
                    // in horizontal retrace
                    let y = r.below(239) as usize;
                    let row_start = fp + y * line - 24 * line - 16;
                    vec![row_start + 160 + r.below(line as u64 - 160 - 13) as usize]
                }
                6 => vec![fp + 216 * line - 24 * line - 16 + r.below(3000) as usize], // after the last visible line
                _ => {
                    let n = 1 + r.below(10);
                    let mut v: Vec<usize> = (0..n).map(|_| r.below(frame_len as u64 - 100) as usize).collect();
                    v.sort();
                    v
                }
            };
            times.retain(|t| *t < frame_len - 13 || kind == 3);
            let mut crossed = false;
            let mut writes = vec![];
            let mut lastt = emu.verif_frame_clocks();
            for t in times {
                if t < lastt + 1 {
                    continue;
                }
                emu.verif_wait(t - emu.verif_frame_clocks());
                let c = match last_byte {
                    Some(v) if loaded_since && r.chance(2, 3) => v,
                    _ => r.u8(),
                };
                loaded_since = false;
                last_byte = Some(c);
                // "the ULA port" is every even address (the ULA decodes A0 only): mostly xxFE, and any other even port,
                // including the ones that select the 128K paging latch or the AY as well (the written value then also
                // pages memory - the program lives in bank 2 with interrupts off - or programs the AY)
                let port = if r.chance(1, 2) { *r.pick(&[0x00FEu16, 0x10FE, 0xBEFE, 0xFFFE]) } else { r.u16() & 0xFFFE };
                let port = if ext && port == 0x00FE { 0x01FE } else { port };
                let t0 = emu.verif_frame_clocks();
                {
                    let cpu = emu.verif_cpu();
                    cpu.regs.set_bc(port);
                    cpu.regs.set_acc(c);
                    cpu.regs.set_pc(CODE);
                }
                step(&mut emu);
                writes.push(json!([t0, c, port]));
                lastt = emu.verif_frame_clocks();
                if lastt < t0 {
                    // the OUT crossed the frame end: the frame is complete (the call that executed the OUT reported it); no
                    // border pixel is as late as this write, and the next frame starts in the new colour whichever side of
                    // the frame end the write fell on
                    crossed = true;
                    break;
                }
            }
            if crossed {
                // (the single-stepping call ended at a breakpoint stop; the completion of the frame is handed over by the next
                // call, which executes nothing)
                finish_frame(&mut emu);
                out.ev(json!({"ev":"bframe","writes":writes,"rows":rows(&emu),"reported":emu.border_color() as u8,
                              "startcolor":startcolor,"midload":-1,"crossed":true}));
                startcolor = emu.border_color() as u8;
                continue;
            }
            // now and then a snapshot is loaded in the middle of the frame, after the program's writes (a host does that
            // at a breakpoint stop): from the next frame on the whole border shows the snapshot's colour
            let mut midload: i32 = -1;
            if r.chance(1, 6) {
                let now = emu.verif_frame_clocks();
                if now + 200 < frame_len {
                    emu.verif_wait(r.below((frame_len - now - 100) as u64) as usize);
                    let mut banks: Vec<Vec<u8>> = (0..8).map(|_| vec![0u8; 16384]).collect();
                    banks[2][..4].copy_from_slice(&[0xED, 0x79, 0x18, 0xFE]);
                    let b = r.below(8) as u8;
                    let d = MachineDesc {
                        m128,
                        cpu: CpuDesc { af: 0, bc: 0, de: 0, hl: 0, af_: 0, bc_: 0, de_: 0, hl_: 0, ix: 0, iy: 0,
                                       sp: 0xBFF0, pc: CODE + 2, i: 0, r: 0, iff1: false, iff2: false, im: 1 },
                        border: b,
                        latch: 0,
                        banks,
                    };
                    if r.chance(1, 2) {
                        let bytes = if m128 { sna128(&d) } else { sna48(&d) };
                        emu.load_snapshot(Snapshot::Sna(VAsset::new(bytes))).unwrap();
                    } else {
                        emu.load_snapshot(Snapshot::Szx(VAsset::new(szx(&d, &SzxOpts::default())))).unwrap();
                    }
                    midload = b as i32;
                    loaded_since = true;
                }
            }
            // a host running at double speed asks for two frames per call and looks at the picture afterwards: it is the
            // picture of the second frame - all of it in the colour the first one ended with
            if midload < 0 && r.chance(1, 6) {
                finish_frames(&mut emu, 2);
                out.ev(json!({"ev":"bskip","writes":writes}));
                out.ev(json!({"ev":"bframe","writes":[],"rows":rows(&emu),"reported":emu.border_color() as u8,
                              "startcolor":emu.border_color() as u8,"midload":-1,"second_of_two":true}));
                startcolor = emu.border_color() as u8;
                continue;
            }
            finish_frame(&mut emu);
            out.ev(json!({"ev":"bframe","writes":writes,"rows":rows(&emu),"reported":emu.border_color() as u8,
                          "startcolor":startcolor,"midload":midload}));
            startcolor = emu.border_color() as u8;
        }
    }
    let n = out.finish();
    eprintln!("border: {n} events");
}
