SPECIFICATION Spec
CONSTANTS
  Spf = 2
  MaxLen = 5
  Stereo = TRUE
INVARIANTS PrefixOfCanon EndMeansAll NoEarlyStall
CHECK_DEADLOCK FALSE
