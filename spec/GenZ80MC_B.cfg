SPECIFICATION GSpec
CONSTANTS
  ROM <- RomB
  Depth = 5
INVARIANT Emit
CHECK_DEADLOCK FALSE
