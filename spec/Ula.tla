-------------------------------- MODULE Ula --------------------------------
(* C04 / C05: frame timing, the INT pulse and the ULA contention model of the *)
(* 48K and 128K machines. Statement-shaped definitions (the numbers of the    *)
(* property text) and implementation-shaped ones (the structure of the        *)
(* controller: specs table, contention_clocks, io_contention_first/last,      *)
(* wait_internal with frame wrap) side by side.                               *)
EXTENDS Z80

\* ---- statement-shaped ------------------------------------------------------------
\* "A video frame lasts exactly 69888 T-states on the 48K and 70908 on the 128K"
Frame(m) == IF m = 48 THEN 69888 ELSE 70908
\* "T0 = 14335 and 224 T/line on the 48K and T0 = 14361 and 228 T/line on the 128K"
T0(m) == IF m = 48 THEN 14335 ELSE 14361
Line(m) == IF m = 48 THEN 224 ELSE 228
Pattern == <<6, 5, 4, 3, 2, 1, 0, 0>>
\* "delayed by 6,5,4,3,2,1,0,0 T-states according to (T - T0) mod 8 when T falls in the first 128
\*  T-states of one of the 192 picture lines"
Delay(m, T) ==
    IF T >= T0(m) /\ T < T0(m) + 192 * Line(m) /\ ((T - T0(m)) % Line(m)) < 128
    THEN Pattern[(((T - T0(m)) % Line(m)) % 8) + 1] ELSE 0
\* "the INT line is asserted for exactly the first 32 T-states of every frame"
IntActive(m, T) == (T % Frame(m)) < 32

\* "contended RAM (48K: 0x4000-0x7FFF; 128K: RAM banks 1,3,5,7 wherever they are paged)"
\* banks = the four window descriptors as in Paging.tla: <<kind, n>>
Contended(m, banks, a) ==
    LET w == banks[(a \div 16384) + 1] IN
    IF m = 48 THEN (a \div 16384) = 1
    ELSE w[1] = "ram" /\ (w[2] % 2) = 1

\* one bus operation starting at in-frame time T: the T-states it takes
\* "Port cycles follow the four ULA patterns (N:1,C:3 / N:4 / C:1,C:3 / C:1,C:1,C:1,C:1) selected by
\*  address bit 0 and by whether the port's high byte addresses contended RAM"
OpTime(m, banks, T, o) ==
    LET F == Frame(m)
        D(t) == Delay(m, t % F)
    IN CASE o[1] \in {"mreq", "nomreq"} -> (IF Contended(m, banks, o[2]) THEN D(T) ELSE 0) + o[3]
         [] o[1] = "int" -> o[3]
         [] o[1] \in {"in", "out"} ->
              LET hi == Contended(m, banks, o[2])   even == (o[2] % 2) = 0 IN
              IF ~hi /\ even THEN 1 + D(T + 1) + 3
              ELSE IF ~hi /\ ~even THEN 4
              ELSE IF hi /\ even THEN LET d1 == D(T) + 1 IN d1 + D(T + d1) + 3
              ELSE LET d1 == D(T) + 1
                       d2 == d1 + D(T + d1) + 1
                       d3 == d2 + D(T + d2) + 1
                   IN d3 + D(T + d3) + 1
         [] OTHER -> 0

\* elapsed T-states of a list of bus operations started at in-frame time T (not reduced mod frame)
RECURSIVE RunOps(_, _, _, _)
RunOps(m, banks, T, ops) ==
    IF ops = <<>> THEN T ELSE RunOps(m, banks, T + OpTime(m, banks, T, Head(ops)), Tail(ops))

\* ---- implementation-shaped -------------------------------------------------------------
\* the specs table as the builder computes it
Specs(m) ==
    LET firstPixel == IF m = 48 THEN 14336 ELSE 14362
        lb == 24  sr == 128  rb == 24  rt == IF m = 48 THEN 48 ELSE 52
        tb == 48  scr == 192  bb == 48  vs == IF m = 48 THEN 24 ELSE 23
    IN [firstPixel |-> firstPixel, line |-> lb + sr + rb + rt, screenRow |-> sr,
        frame |-> (tb + scr + bb + vs) * (lb + sr + rb + rt), linesScreen |-> scr, intLen |-> 32]
\* ZXMachine::contention_clocks
DelayImpl(m, T) ==
    LET sp == Specs(m)   org == sp.firstPixel - 1 IN
    IF T < org \/ T >= org + sp.linesScreen * sp.line THEN 0
    ELSE LET tl == (T - org) % sp.line IN
         IF tl >= sp.screenRow THEN 0 ELSE Pattern[(tl % 8) + 1]
\* wait_internal + new_frame: time advances by d, the frame counter by one when the frame is complete
Tick(m, st, d) ==
    LET t == st.t + d IN
    IF t >= Specs(m).frame THEN [t |-> t - Specs(m).frame, frames |-> st.frames + 1]
    ELSE [t |-> t, frames |-> st.frames]
=============================================================================
