----------------------------- MODULE MC_Paging -----------------------------
(* Exhaustive model for C06: all 256 paging values, every port class, one or *)
(* two cells per page. Checks that the implementation-shaped latch/map       *)
(* refines the statement-shaped one and the statement's own clauses.         *)
EXTENDS Paging

CONSTANTS Data, MCPorts, OutVals
VARIABLES m, s, iram, acc, lk, sram, irom

vars == <<m, s, iram, acc, lk, sram, irom>>
AllVals == 0..255
\* every combination of the six meaningful bits plus values with the unused bits set
QuickVals == (0..63) \cup {64, 128, 255, 223}
Offs == 0..(PAGE - 1)
RomVal(p, o) == 100 + 10 * p + o      \* distinguishable ROM contents

Init ==
    /\ m \in {48, 128}
    /\ s = ImplInit(m)
    /\ acc = 0 /\ lk = FALSE
    /\ iram = [b \in 0..7 |-> [o \in Offs |-> 0]]
    /\ sram = [b \in 0..7 |-> [o \in Offs |-> 0]]
    /\ irom = [p \in 0..1 |-> [o \in Offs |-> RomVal(p, o)]]

ImplRead(w, o) == IF s.win[w + 1][1] = "rom" THEN irom[s.win[w + 1][2]][o] ELSE iram[s.win[w + 1][2]][o]
StmtRead(w, o) ==
    LET pg == StmtMap(m, acc, w) IN IF pg[1] = "rom" THEN RomVal(pg[2], o) ELSE sram[pg[2]][o]

Out(port, v) ==
    /\ s' = ImplOut(m, s, port, v)
    /\ LET r == IF SelectsPagingOnly(port) THEN StmtOut(m, acc, lk, v) ELSE [acc |-> acc, lk |-> lk]
       IN acc' = r.acc /\ lk' = r.lk
    /\ UNCHANGED <<m, iram, sram, irom>>

MemWrite(w, o, v) ==
    /\ iram' = IF s.win[w + 1][1] = "ram" THEN [iram EXCEPT ![s.win[w + 1][2]][o] = v] ELSE iram
    /\ LET pg == StmtMap(m, acc, w) IN
       sram' = IF pg[1] = "ram" THEN [sram EXCEPT ![pg[2]][o] = v] ELSE sram
    /\ UNCHANGED <<m, s, acc, lk, irom>>

Next ==
    \/ \E port \in MCPorts, v \in OutVals : Out(port, v)
    \/ \E w \in 0..3, o \in Offs, v \in Data : MemWrite(w, o, v)

Spec == Init /\ [][Next]_vars

\* ---- properties -----------------------------------------------------------
\* every address reads the same under both descriptions (this is the refinement)
Refines == \A w \in 0..3, o \in Offs : ImplRead(w, o) = StmtRead(w, o)
MapAgrees == \A w \in 0..3 : s.win[w + 1] = StmtMap(m, acc, w)
LatchAgrees == s.p7ffd = acc /\ (m = 128 => (s.pagingOn <=> ~lk))
\* window 0 is ROM and ROM is never written
RomFixed == s.win[1][1] = "rom" /\ irom = [p \in 0..1 |-> [o \in Offs |-> RomVal(p, o)]]
\* windows 1 and 2 are banks 5 and 2
FixedWindows == s.win[2] = Ram(5) /\ s.win[3] = Ram(2)
\* 48K ignores paging writes
K48Fixed == m = 48 => (acc = 0 /\ ~lk /\ s.win = <<Rom(0), Ram(5), Ram(2), Ram(0)>>)
\* once locked, always locked and the latch never changes
LockSticky == [][lk => (lk' /\ acc' = acc /\ s'.win = s.win)]_vars
\* a write through one window is seen exactly through the windows mapping the same bank
Aliasing ==
    [][\A w \in 0..3, o \in Offs :
        LET changed(x) == ImplRead(x, o)' # ImplRead(x, o) IN
        (s' = s) => \A x \in 0..3 : changed(x) => \E y \in 0..3 : s.win[y + 1] = s.win[x + 1] /\ s.win[x + 1][1] = "ram"]_vars
=============================================================================
