----------------------------- MODULE MC_LdBytes -----------------------------
(* C10 on the specification alone: the closed form LdBytes (used to judge the  *)
(* implementation) agrees with the byte-by-byte run of the ROM routine and     *)
(* with the one-line statement of the property on its regular domain - for     *)
(* every block of up to 4 bytes over {0,1,255}, every request over small and   *)
(* quirky DE values, LOAD and VERIFY, against equal and unequal memory.        *)
EXTENDS Tape, FiniteSets

Bytes3 == {0, 1, 255}
Blocks == UNION {[1..n -> Bytes3] : n \in 0..4}
DEs == {0, 1, 2, 3, 4, 65280, 65281}
IXs == {32768, 65534, 16382}
Mems == {0, 1}        \* memory filled with this value

Agree(A, load, IX, DE, blk, mv) ==
    LET mem(a) == mv
        writable(a) == a >= 16384
        c == LdBytes(A, load, IX, DE, blk, mem, writable)
        r == LdRom(A, load, IX, DE, blk, mem, writable)
        cells == {W16(IX + j) : j \in 0..5}
    IN /\ c.carry = r.carry /\ c.ix = r.ix /\ c.de = r.de
       /\ \A a \in cells : LdMemAfter(c, IX, blk, mem, writable, a) = (IF a \in DOMAIN r.wr THEN r.wr[a] ELSE mem(a))

\* "success only when the flag byte matches, the block holds the requested bytes and the XOR of all
\*  its bytes is zero" - on the regular domain 1 <= DE, D # 0xFF, LOAD
Statement(A, IX, DE, blk) ==
    LET mem(a) == 0
        writable(a) == TRUE
        c == LdBytes(A, TRUE, IX, DE, blk, mem, writable)
    IN (DE >= 1 /\ DE < 65280) =>
         (c.carry <=> (Len(blk) >= DE + 2 /\ blk[1] = A /\ XorAll(SubSeq(blk, 1, DE + 2)) = 0))

ASSUME \A blk \in Blocks, A \in Bytes3, load \in BOOLEAN, IX \in IXs, DE \in DEs, mv \in Mems :
          Agree(A, load, IX, DE, blk, mv)
ASSUME \A blk \in Blocks, A \in Bytes3, IX \in {32768}, DE \in DEs : Statement(A, IX, DE, blk)
ASSUME PrintT(<<"CASES", Cardinality(Blocks) * 3 * 2 * 3 * 7 * 2>>)
=============================================================================
