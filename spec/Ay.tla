---------------------------------- MODULE Ay ----------------------------------
(* C18: the AY-3-8910 as far as its registers define the sound. Time unit: one    *)
(* chip tick = 8 clock periods (f_clk / 8).                                       *)
EXTENDS Bits, Sequences, SequencesExt, TLC

\* "a tone-enabled channel is a square wave of frequency f_clk/(16*TP) (12-bit TP, 0 acting as 1)":
\* the output toggles every TP ticks
TonePeriod(r_lo, r_hi) == LET tp == (r_hi % 16) * 256 + r_lo IN IF tp = 0 THEN 1 ELSE tp
\* "noise is clocked at f_clk/(16*NP)": the noise output can change only every 2*NP ticks
NoisePeriod(r6) == LET np == r6 % 32 IN IF np = 0 THEN 1 ELSE np
EnvPeriod(r11, r12) == LET ep == r12 * 256 + r11 IN IF ep = 0 THEN 1 ELSE ep

\* "the envelope steps with period 256*EP/f_clk through the documented decay/attack/hold/alternate
\*  pattern of each of the 16 shape codes": 32 steps per ramp, one step per EP ticks.
\* shape bits: 8 CONTINUE, 4 ATTACK, 2 ALTERNATE, 1 HOLD.  n = ticks since R13 was written.
EnvValue(shape, ep, n) ==
    LET step == n \div ep
        ramp == step \div 32
        pos == step % 32
        cont == Bit(shape, 3) = 1   att == Bit(shape, 2) = 1   alt == Bit(shape, 1) = 1   hold == Bit(shape, 0) = 1
        up(p) == p
        down(p) == 31 - p
    IN IF ramp = 0 THEN (IF att THEN up(pos) ELSE down(pos))
       ELSE IF ~cont THEN 0
       ELSE IF hold THEN (IF att # alt THEN 31 ELSE 0)      \* stays at the end value, or at the opposite one when ALTERNATE
       ELSE IF alt THEN (IF (ramp % 2 = 1) # att THEN up(pos) ELSE down(pos))
       ELSE (IF att THEN up(pos) ELSE down(pos))

\* level index (0..31) sent to the DAC for one channel
\* "amplitude grows strictly with the 4-bit volume (or follows the envelope when bit 4 is set), mixer bits
\*  gate tone and noise per channel"
LevelIndex(toneBit, noiseBit, toneOff, noiseOff, volReg, env) ==
    LET gate == (toneBit = 1 \/ toneOff = 1) /\ (noiseBit = 1 \/ noiseOff = 1)
        amp == IF Bit(volReg, 4) = 1 THEN env ELSE 2 * (volReg % 16) + 1
    IN IF gate THEN amp ELSE 0

\* "channels are panned according to the configured stereo mode": which side each channel is heard on
\* modes 0..6 = Mono ABC ACB BAC BCA CAB CBA; in XYZ, X is left, Y centre, Z right
PanClass(mode, ch) ==       \* ch 0..2 = A B C
    LET order == <<<<0, 1, 2>>, <<0, 2, 1>>, <<1, 0, 2>>, <<1, 2, 0>>, <<2, 0, 1>>, <<2, 1, 0>>>>
        where(i) == CHOOSE k \in 1..3 : order[mode][k] = i
    IN IF mode = 0 THEN "both" ELSE <<"left", "both", "right">>[where(ch)]

\* ---- implementation-shaped envelope: two segments per shape, slide / hold functions, reset table ----
\* seg functions: "down", "up", "holdtop", "holdbottom"
EnvSegs == << <<"down","holdbottom">>, <<"down","holdbottom">>, <<"down","holdbottom">>, <<"down","holdbottom">>,
              <<"up","holdbottom">>, <<"up","holdbottom">>, <<"up","holdbottom">>, <<"up","holdbottom">>,
              <<"down","down">>, <<"down","holdbottom">>, <<"down","up">>, <<"down","holdtop">>,
              <<"up","up">>, <<"up","holdtop">>, <<"up","down">>, <<"up","holdbottom">> >>
ResetToMax == << <<TRUE,FALSE>>, <<TRUE,FALSE>>, <<TRUE,FALSE>>, <<TRUE,FALSE>>, <<FALSE,FALSE>>, <<FALSE,FALSE>>,
                 <<FALSE,FALSE>>, <<FALSE,FALSE>>, <<TRUE,TRUE>>, <<TRUE,FALSE>>, <<TRUE,FALSE>>, <<TRUE,TRUE>>,
                 <<FALSE,FALSE>>, <<FALSE,TRUE>>, <<FALSE,TRUE>>, <<FALSE,FALSE>> >>
ImEnvInit(shape) == [seg |-> 0, env |-> IF ResetToMax[shape + 1][1] THEN 31 ELSE 0, cnt |-> 0]
ImEnvTick(shape, ep, s) ==
    IF s.cnt + 1 < ep THEN [s EXCEPT !.cnt = @ + 1]
    ELSE LET f == EnvSegs[shape + 1][s.seg + 1]
             flip == LET sg == 1 - s.seg IN [seg |-> sg, env |-> IF ResetToMax[shape + 1][sg + 1] THEN 31 ELSE 0, cnt |-> 0]
         IN CASE f = "up" -> IF s.env = 31 THEN flip ELSE [s EXCEPT !.env = @ + 1, !.cnt = 0]
              [] f = "down" -> IF s.env = 0 THEN flip ELSE [s EXCEPT !.env = @ - 1, !.cnt = 0]
              [] OTHER -> [s EXCEPT !.cnt = 0]
\* env values of the implementation-shaped machine for ticks 0..N (iterative fold, no deep recursion)
ImEnvTrajectory(shape, ep, N) ==
    FoldLeft(LAMBDA acc, i : LET nx == ImEnvTick(shape, ep, acc.s) IN [s |-> nx, out |-> Append(acc.out, nx.env)],
             [s |-> ImEnvInit(shape), out |-> <<ImEnvInit(shape).env>>], [i \in 1..N |-> i]).out
=============================================================================
