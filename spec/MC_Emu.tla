--------------------------------- MODULE MC_Emu ---------------------------------
(* Every sequence of host calls (FrameCount(1..3), Max with any stopwatch verdicts, *)
(* breakpoints on any subset of a few instruction numbers) up to Calls calls: the    *)
(* machine is always exactly Ref(number of instructions executed) - nothing the     *)
(* host does leaks into it - and the frames the host is told about add up to the    *)
(* frames the machine completed.                                                    *)
EXTENDS Emu

CONSTANTS Calls, MaxK
VARIABLES m, told, calls, bpset, passed
vars == <<m, told, calls, bpset, passed>>

Init == m = MInit /\ told = 0 /\ calls = 0 /\ passed = 0 /\ bpset \in SUBSET {3, 7, 8, 12}

Call(mode, sw) ==
    /\ calls < Calls /\ m.k < MaxK
    /\ LET r == Run(m, passed, mode, [k \in 1..200 |-> k \in bpset], sw) IN
       /\ m' = r.m /\ passed' = r.passed
       /\ told' = told + r.reported
       /\ calls' = calls + 1
    /\ UNCHANGED bpset

Next == \/ \E n \in 1..3 : Call(<<"count", n>>, <<>>)
        \/ \E sw \in {<<TRUE>>, <<FALSE, TRUE>>, <<FALSE, FALSE, TRUE>>} : Call(<<"max">>, sw)
Spec == Init /\ [][Next]_vars

Deterministic == m = Ref(m.k)
\* every frame the machine completed has been handed to the host or is still pending in the counter -
\* also when a frame ends exactly at a breakpoint
NoFrameLost == told + passed = m.frames
=============================================================================
