SPECIFICATION GSpec
CONSTANTS
  ROM <- RomC
  Depth = 5
INVARIANT Emit
CHECK_DEADLOCK FALSE
