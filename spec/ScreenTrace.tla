----------------------------- MODULE ScreenTrace -----------------------------
(* C08 trace validation. "screen": the 6912 bytes visible to the ULA (delivered *)
(* by some path); "frame": the canvas the host received for a frame during      *)
(* which they did not change; "wframe": a frame during which one byte was       *)
(* changed at a known beam time.                                                *)
(* The flash phase is not observable beforehand: the spec keeps the set of      *)
(* phases (0..31) consistent with every frame seen since the last reset.        *)
EXTENDS Screen, Ula, Json, IOUtils, Sequences, SequencesExt, TLC

Rec == ndJsonDeserialize(IOEnv.TRACE)

VARIABLES l, m, scr, phases, fno, path, bad
tvars == <<l, m, scr, phases, fno, path, bad>>
TraceInit == l = 1 /\ m = 48 /\ scr = <<>> /\ phases = 0..31 /\ fno = 0 /\ path = "" /\ bad = 0

Report(kind, info) == PrintT(<<"MISMATCH", l, kind, path, info>>) /\ bad' = bad + 1
FlashAt(p, n) == ((n + p) \div 16) % 2 = 1

\* does the canvas equal the decode of `s` with flash state fl ?  (canvas: 49152 values, row-major)
Matches(canvas, s, fl) ==
    \A y \in 0..191 : \A c \in 0..31 :
        LET bmp == s[BitmapOff(y, c) + 1]   attr == s[AttrOff(y, c) + 1]   base == y * 256 + c * 8 IN
        \A k \in 0..7 : canvas[base + k + 1] = PixelOf(bmp, attr, c * 8 + k, fl)
FirstDiff(canvas, s, fl) ==
    LET D == {i \in 0..49151 : canvas[i + 1] # Pixel(s, i % 256, i \div 256, fl)} IN
    IF D = {} THEN -1 ELSE CHOOSE i \in D : \A j \in D : i <= j

FrameEv(e) ==
    \E okN \in {Matches(e.canvas, scr, FALSE)} : \E okF \in {Matches(e.canvas, scr, TRUE)} :
    LET keep == {p \in phases : IF FlashAt(p, fno) THEN okF ELSE okN} IN
    /\ fno' = fno + 1
    /\ IF keep # {} THEN phases' = keep /\ bad' = bad
       ELSE /\ phases' = 0..31
            /\ Report("canvas", [frame |-> fno, plainOk |-> okN, flashedOk |-> okF,
                                 firstdiff |-> IF ~okN /\ ~okF THEN FirstDiff(e.canvas, scr, FALSE) ELSE -2])

\* the frame a loaded snapshot continues from its own moment e.from_t: every cell the beam reaches clearly later shows
\* the (unchanged) display file
PFrameEv(e) ==
    LET Late(y, c) == T0(m) + 1 + y * Line(m) + c * 4 >= e.from_t + 16
        Ok(fl) == \A y \in 0..191 : \A c \in 0..31 : Late(y, c) =>
                    LET bmp == scr[BitmapOff(y, c) + 1]   attr == scr[AttrOff(y, c) + 1]   base == y * 256 + c * 8 IN
                    \A k \in 0..7 : e.canvas[base + k + 1] = PixelOf(bmp, attr, c * 8 + k, fl)
    IN \E okN \in {Ok(FALSE)} : \E okF \in {Ok(TRUE)} :
       LET keep == {p \in phases : IF FlashAt(p, fno) THEN okF ELSE okN} IN
       /\ fno' = fno + 1
       /\ IF keep # {} THEN phases' = keep /\ bad' = bad
          ELSE phases' = 0..31 /\ Report("canvas", [frame |-> fno, plainOk |-> okN, flashedOk |-> okF, firstdiff |-> -4 - e.from_t])

\* a frame observed at a sample of pixels only (every frame of the long watch): same judgement on the sample
FFrameEv(e) ==
    \E okN \in {\A i \in DOMAIN e.samples : e.samples[i][3] = Pixel(scr, e.samples[i][1], e.samples[i][2], FALSE)} :
    \E okF \in {\A i \in DOMAIN e.samples : e.samples[i][3] = Pixel(scr, e.samples[i][1], e.samples[i][2], TRUE)} :
    LET keep == {p \in phases : IF FlashAt(p, fno) THEN okF ELSE okN} IN
    /\ fno' = fno + 1
    /\ IF keep # {} THEN phases' = keep /\ bad' = bad
       ELSE /\ phases' = 0..31
            /\ Report("canvas", [frame |-> fno, plainOk |-> okN, flashedOk |-> okF, firstdiff |-> -3])

\* beam time at which the ULA uses the bytes of character column c of picture line y
BeamT(y, c) == T0(m) + 1 + y * Line(m) + c * 4
\* a frame in which offset e.off changed from e.old to e.new at in-frame time e.tw: every pixel that the
\* beam reaches clearly later (earlier) than the write shows the new (old) byte; in between either
WFrame(e) ==
    LET sOld == [scr EXCEPT ![e.off + 1] = e.old]
        sNew == [scr EXCEPT ![e.off + 1] = e.new]
        Uses(y, c) == BitmapOff(y, c) = e.off \/ AttrOff(y, c) = e.off
        OkPix(y, c, fl) ==
            LET base == y * 256 + c * 8
                asNew == \A k \in 0..7 : e.canvas[base + k + 1] = PixelOf(sNew[BitmapOff(y, c) + 1], sNew[AttrOff(y, c) + 1], c * 8 + k, fl)
                asOld == \A k \in 0..7 : e.canvas[base + k + 1] = PixelOf(sOld[BitmapOff(y, c) + 1], sOld[AttrOff(y, c) + 1], c * 8 + k, fl)
            IN IF ~Uses(y, c) THEN asNew
               ELSE IF e.tw <= BeamT(y, c) - 16 THEN asNew
               ELSE IF e.tw >= BeamT(y, c) + 16 THEN asOld
               ELSE asNew \/ asOld
        Ok(fl) == \A y \in 0..191 : \A c \in 0..31 : OkPix(y, c, fl)
    IN \E okN \in {Ok(FALSE)} : \E okF \in {Ok(TRUE)} :
       LET keep == {p \in phases : IF FlashAt(p, fno) THEN okF ELSE okN} IN
       /\ fno' = fno + 1
       /\ scr' = sNew
       /\ IF keep # {} THEN phases' = keep /\ bad' = bad
          ELSE phases' = 0..31 /\ Report("beam", [frame |-> fno, tw |-> e.tw, off |-> e.off, plainOk |-> okN, flashedOk |-> okF])

\* writes anywhere in the address space: only those that the memory map sends into the visible display file
\* (bank 5, or bank 7 while the shadow screen is displayed; offsets 0..6911) change what the ULA sees
ApplyW(s, w, vis) ==
    LET a == w[2]
        bank == IF a >= 49152 THEN w[1] ELSE IF a >= 32768 THEN 2 ELSE IF a >= 16384 THEN 5 ELSE -1
        off == a % 16384
    IN IF bank = vis /\ off < 6912 THEN [s EXCEPT ![off + 1] = w[3]] ELSE s
Writes(e) == scr' = FoldLeft(LAMBDA s, w : ApplyW(s, w, IF e.shadow THEN 7 ELSE 5), scr, e.ws)

Step(e) ==
    CASE e.ev = "reset" -> m' = e.m /\ path' = e.path /\ scr' = <<>> /\ phases' = 0..31 /\ fno' = 0 /\ bad' = bad
      [] e.ev = "screen" -> scr' = e.bytes /\ UNCHANGED <<m, phases, fno, path, bad>>
      [] e.ev = "writes" -> Writes(e) /\ UNCHANGED <<m, phases, fno, path, bad>>
      \* frames that passed without being logged still advance the flash counter
      [] e.ev = "skip" -> fno' = fno + e.n /\ UNCHANGED <<m, scr, phases, path, bad>>
      [] e.ev = "frame" -> FrameEv(e) /\ UNCHANGED <<m, scr, path>>
      [] e.ev = "fframe" -> FFrameEv(e) /\ UNCHANGED <<m, scr, path>>
      [] e.ev = "pframe" -> PFrameEv(e) /\ UNCHANGED <<m, scr, path>>
      [] e.ev = "wframe" -> WFrame(e) /\ UNCHANGED <<m, path>>

TraceNext == l <= Len(Rec) /\ Step(Rec[l]) /\ l' = l + 1
TraceSpec == TraceInit /\ [][TraceNext]_tvars
TraceAccepted ==
    LET d == TLCGet("stats").diameter IN
    IF d - 1 = Len(Rec) THEN TRUE ELSE Print(<<"TRACE-NOT-CONSUMED", d - 1, Len(Rec)>>, FALSE)
Summary == (l = Len(Rec) + 1) => PrintT(<<"SUMMARY", Len(Rec), bad>>)
=============================================================================
