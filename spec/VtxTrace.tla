------------------------------ MODULE VtxTrace ------------------------------
(* C20 trace validation: the event log of every play() call of the real player  *)
(* (over a recording AY backend) against Vtx.tla, the output buffer contents,    *)
(* chunking independence on the real backend, and decoding of real files.        *)
EXTENDS Vtx, Json, IOUtils

Rec == ndJsonDeserialize(IOEnv.TRACE)

VARIABLES l, track, spf, stereo, p, sampleNo, total, bad
tvars == <<l, track, spf, stereo, p, sampleNo, total, bad>>
TraceInit == l = 1 /\ track = <<>> /\ spf = 1 /\ stereo = FALSE /\ p = [frame |-> 0, fs |-> 0] /\ sampleNo = 0 /\ total = 0 /\ bad = 0

Report(kind, info) == PrintT(<<"MISMATCH", l, kind, info>>) /\ bad' = bad + 1

PlayEv(e) ==
    LET r == Play(track, spf, p, e.len, stereo)
        nS == Len(SelectSeq(r.ev, LAMBDA x : x[1] = "s"))
        \* the backend numbers its samples 1, 2, ...: left = n, right = -n
        wantOut == [i \in 1..e.len |->
                      IF stereo THEN (IF i <= 2 * nS THEN (IF i % 2 = 1 THEN sampleNo + ((i + 1) \div 2) ELSE 0 - (sampleNo + (i \div 2))) ELSE 12345)
                      ELSE (IF i <= nS THEN sampleNo + i ELSE 12345)]
        ok == e.log = r.ev /\ e.ret = r.ret /\ e.out = wantOut
        \* "produces frames*floor(sample_rate/player_frequency) samples per channel in total before reporting the end"
        endOk == r.ended => (total + nS = TotalSamples(track, spf))
    IN /\ p' = r.p /\ sampleNo' = sampleNo + nS /\ total' = total + nS
       /\ IF ok /\ endOk THEN bad' = bad
          ELSE Report("play", [len |-> e.len, ret |-> e.ret, wantret |-> r.ret, log |-> e.log, want |-> r.ev, frame |-> p.frame, fs |-> p.fs,
                               total |-> total + nS, wanttotal |-> TotalSamples(track, spf), ended |-> r.ended, outok |-> e.out = wantOut])

\* generated files: the register-major contents are RawGen(seed, j) at position j (0-based); sampled positions i
\* (1-based) of the loader's result must hold the byte of register (i-1) % 14 of frame (i-1) \div 14
RawGen(seed, j) == ((j % 251) * 7 + ((j \div 251) % 241) * 13 + ((j \div 60491) % 239) * 29 + seed) % 256
DecodeGen(e) ==
    LET ok == /\ e.outcome = "ok" /\ e.len = e.frames * 14
              /\ \A k \in DOMAIN e.samples :
                    LET i == e.samples[k][1] IN e.samples[k][2] = RawGen(e.seed, ((i - 1) % 14) * e.frames + ((i - 1) \div 14))
    IN IF ok THEN bad' = bad ELSE Report("decode", [file |-> "generated", frames |-> e.frames, len |-> e.len, outcome |-> e.outcome])

Step(e) ==
    CASE e.ev = "track" ->
            /\ track' = e.frames /\ spf' = e.rate \div e.pf /\ stereo' = e.stereo
            /\ p' = [frame |-> 0, fs |-> 0] /\ sampleNo' = 0 /\ total' = 0 /\ bad' = bad
      [] e.ev = "play" -> PlayEv(e) /\ UNCHANGED <<track, spf, stereo>>
      \* rewind() / set_frame(k): playback continues with the first sample of frame k (the envelope is reset through R13);
      \* a frame that does not exist is refused and nothing changes
      [] e.ev = "seek" ->
            /\ LET valid == e.frame < Len(track) \/ (e.frame = 0 /\ e.ret)
                   ok == e.ret = valid /\ e.log = (IF valid THEN << <<"w", 13, 0>> >> ELSE <<>>)
               IN /\ p' = IF valid THEN [frame |-> e.frame, fs |-> 0] ELSE p
                  /\ total' = IF valid THEN e.frame * spf ELSE total
                  /\ IF ok THEN bad' = bad
                     ELSE Report("play", [len |-> -1, ret |-> e.ret, wantret |-> valid, log |-> e.log, want |-> <<>>, frame |-> p.frame, fs |-> p.fs,
                                          total |-> total, wanttotal |-> 0, ended |-> FALSE, outok |-> TRUE])
            /\ UNCHANGED <<track, spf, stereo, sampleNo>>
      [] e.ev = "chunkings" ->
            /\ IF e.equal /\ e.samples_per_channel = e.frames * (e.rate \div 50) THEN bad' = bad
               ELSE Report("chunkings", [equal |-> e.equal, samples |-> e.samples_per_channel, want |-> e.frames * (e.rate \div 50)])
            /\ UNCHANGED <<track, spf, stereo, p, sampleNo, total>>
      [] e.ev = "decodegen" -> DecodeGen(e) /\ UNCHANGED <<track, spf, stereo, p, sampleNo, total>>
      [] e.ev = "decode" ->
            /\ IF Len(e.frame_data) = Len(e.raw) /\ Len(e.raw) % 14 = 0
                  /\ \A i \in 1..Len(e.raw) : e.frame_data[i] = Transposed(e.raw, i) THEN bad' = bad
               ELSE Report("decode", [file |-> e.file, len |-> Len(e.frame_data), rawlen |-> Len(e.raw)])
            /\ UNCHANGED <<track, spf, stereo, p, sampleNo, total>>

TraceNext == l <= Len(Rec) /\ Step(Rec[l]) /\ l' = l + 1
TraceSpec == TraceInit /\ [][TraceNext]_tvars
TraceAccepted ==
    LET d == TLCGet("stats").diameter IN
    IF d - 1 = Len(Rec) THEN TRUE ELSE Print(<<"TRACE-NOT-CONSUMED", d - 1, Len(Rec)>>, FALSE)
Summary == (l = Len(Rec) + 1) => PrintT(<<"SUMMARY", Len(Rec), bad>>)
=============================================================================
