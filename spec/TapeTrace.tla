------------------------------ MODULE TapeTrace ------------------------------
(* C11 / C12 trace validation on the real constants: edges of the EAR signal   *)
(* (measured in playing time) and deck commands recorded from the real tape    *)
(* player are judged by the statement-shaped observer of Tape.tla.             *)
(* C10 / C11: "ldbytes" events - calls of the ROM block loader (fast-loaded or  *)
(* loaded in real time) judged by LdBytes against the block the tape cursor     *)
(* points at.                                                                   *)
EXTENDS Tape, Json, IOUtils

Rec == ndJsonDeserialize(IOEnv.TRACE)
VARIABLES l, tape, ob, armed, junk, autoStopped, cursor, slack, bad
tvars == <<l, tape, ob, armed, junk, autoStopped, cursor, slack, bad>>
\* the real constants, with the measuring uncertainty announced by the run ("tape" event; 0 unless the signal was
\* sampled at the instruction boundaries of a running machine)
K == [RealK EXCEPT !.slack = slack]

TraceInit == l = 1 /\ tape = <<>> /\ ob = ObInit /\ armed = FALSE /\ junk = 0 /\ autoStopped = TRUE
             /\ cursor = 1 /\ slack = 0 /\ bad = 0

Fresh == ob' = ObInit /\ armed' = FALSE /\ junk' = 0
Report(kind, info) == PrintT(<<"MISMATCH", l, kind, info>>) /\ bad' = bad + 1
\* after a reported failure the rest of this run of the tape is not judged (until the next fresh start)
Quarantine(o) == [o EXCEPT !.bad = "", !.stage = "junk"]

Edge(e) ==
    /\ UNCHANGED <<tape, autoStopped, cursor>>
    /\ IF armed
       THEN LET o == Feed(K, tape, ob, e.dt) IN
            IF o.bad # "" THEN /\ Report("waveform", [why |-> o.bad, dt |-> e.dt, blk |-> ob.blk, stage |-> ob.stage,
                                                      cnt |-> ob.cnt, byte |-> ob.byte, bit |-> ob.bit])
                               /\ ob' = Quarantine(o) /\ UNCHANGED <<armed, junk>>
            ELSE ob' = o /\ bad' = bad /\ UNCHANGED <<armed, junk>>
       ELSE IF In(K, e.dt, K.pilot) THEN armed' = TRUE /\ ob' = [ob EXCEPT !.cnt = 1] /\ junk' = junk /\ bad' = bad
       ELSE IF junk >= 2 /\ ob.stage # "junk"
            THEN Report("waveform", [why |-> "junk after (re)start", dt |-> e.dt]) /\ ob' = Quarantine(ob)
                 /\ UNCHANGED <<armed, junk>>
       ELSE junk' = junk + 1 /\ bad' = bad /\ UNCHANGED <<ob, armed>>

\* memory image of an "ldbytes" event: region = e.base .. e.base + Len(e.before) - 1 (mod 65536)
LdEvent(e) ==
    LET inRegion(a) == W16(a + 65536 - e.base) < Len(e.before)
        mem(a) == e.before[W16(a + 65536 - e.base) + 1]
        writable(a) == a >= 16384
        have == cursor <= Len(tape)
    IN IF e.fast_off
       THEN \* fast loading switched off by the host, the deck stopped: "no tape is consumed while stopped" - the ROM routine
            \* waits for a signal that does not come, nothing is loaded and the next request still gets this block
            /\ IF ~e.done /\ e.after = e.before THEN bad' = bad
               ELSE Report("ldbytes", [why |-> "request served from a stopped deck although fast loading was switched off", req |-> e.req,
                                       done |-> e.done])
            /\ UNCHANGED cursor
       ELSE IF ~have
       THEN \* "When no block is left the request never completes successfully and CPU state is not disturbed"
            /\ IF e.done /\ e.carry = 1
               THEN Report("ldbytes", [why |-> "request past the end of the tape completed successfully", req |-> e.req])
               ELSE IF e.trapdiff # <<>> THEN Report("ldbytes", [why |-> "CPU state disturbed by a request past the end", diff |-> e.trapdiff])
               ELSE bad' = bad
            /\ UNCHANGED cursor
       ELSE \* (binding through a singleton set makes TLC evaluate the loader result once)
            \E r \in {LdBytes(e.req.a, e.req.carry = 1, e.req.ix, e.req.de, tape[cursor], mem, writable)} :
            \E wantMem \in {[k \in 1..Len(e.before) |-> LdMemAfter(r, e.req.ix, tape[cursor], mem, writable, W16(e.base + k - 1))]} :
            LET blk == tape[cursor]
                \* a request served from a playing tape has at least sat through the block's pilot tone ("EAR carries every
                \* block ... as the standard waveform": nothing reaches the loader faster than the tape delivers it)
                pilotT == (IF blk[1] = 0 THEN RealK.hdrPulses ELSE RealK.dataPulses) * RealK.pilot
                inTime == ~e.playing \/ (e.frames + 1) * (IF e.m = 128 THEN 70908 ELSE 69888) >= pilotT
                ok == e.done /\ (e.carry = 1) = r.carry /\ e.ix = r.ix /\ e.de = r.de /\ e.after = wantMem /\ inTime
            IN /\ IF ok THEN bad' = bad
                  ELSE Report("ldbytes", [req |-> e.req, blkidx |-> cursor, blklen |-> Len(blk), done |-> e.done,
                                          got |-> [carry |-> e.carry, ix |-> e.ix, de |-> e.de], frames |-> e.frames, inTime |-> inTime,
                                          want |-> [carry |-> r.carry, ix |-> r.ix, de |-> r.de],
                                          memdiff |-> {k \in 1..Len(e.before) : e.after[k] # wantMem[k]}])
               /\ cursor' = cursor + 1
    \* the destination region must be covered by the logged memory image
    \* (Assert is a tool-level check of the harness, not a verdict)

Step(e) ==
    CASE e.ev = "tape" -> /\ tape' = e.blocks /\ Fresh /\ autoStopped' = TRUE /\ cursor' = 1 /\ bad' = bad
      [] e.ev = "play" -> /\ IF e.was_stopped /\ autoStopped THEN Fresh /\ autoStopped' = FALSE
                             ELSE UNCHANGED <<ob, armed, junk, autoStopped>>
                          /\ UNCHANGED <<tape, cursor, bad>>
      \* STOP stops the deck whatever went before (the player drivers report the deck state right after the command)
      [] e.ev = "stop" -> /\ IF "stopped" \in DOMAIN e /\ ~e.stopped THEN Report("stopignored", [line |-> l]) ELSE bad' = bad
                          /\ UNCHANGED <<tape, ob, armed, junk, autoStopped, cursor>>
      \* the fast loader took the next block of a tape that stands at a block boundary with the deck stopped (fresh, or
      \* with earlier blocks taken the same way): the listener who presses PLAY next hears the tape from the block behind it
      [] e.ev = "fastblock" ->
            /\ \E o \in {IF autoStopped THEN ObInit ELSE ob} :
                  ob' = IF o.blk < Len(tape) THEN [o EXCEPT !.blk = @ + 1, !.decoded = @ + 1]
                        ELSE [o EXCEPT !.stage = "end", !.decoded = @ + 1]
            /\ armed' = FALSE /\ junk' = 0 /\ autoStopped' = FALSE
            /\ UNCHANGED <<tape, cursor, bad>>
      [] e.ev = "rewind" -> Fresh /\ autoStopped' = FALSE /\ cursor' = 1 /\ UNCHANGED <<tape, bad>>
      [] e.ev = "edge" -> Edge(e)
      \* the player gave up (an error from process_clocks / rewind, or no end) on a well-formed tape
      [] e.ev = "taperr" -> Report("taperr", [detail |-> e.detail]) /\ UNCHANGED <<tape, ob, armed, junk, autoStopped, cursor>>
      [] e.ev = "idle" -> /\ IF e.changed THEN Report("frozen", [clocks |-> e.clocks]) ELSE bad' = bad
                          /\ UNCHANGED <<tape, ob, armed, junk, autoStopped, cursor>>
      [] e.ev = "autostop" ->
            /\ autoStopped' = TRUE
            /\ IF ob.stage = "junk" \/ (ob.blk = Len(tape) /\ ob.stage \in {"pause", "end"} /\ ob.decoded = Len(tape))
               THEN bad' = bad
               ELSE Report("wholetape", [blk |-> ob.blk, stage |-> ob.stage, decoded |-> ob.decoded, blocks |-> Len(tape)])
            /\ UNCHANGED <<tape, ob, armed, junk, cursor>>
      [] e.ev = "ldbytes" -> LdEvent(e) /\ UNCHANGED <<tape, ob, armed, junk, autoStopped>>
      \* the fast-load shortcut serves the same request in the same emulated time wherever the data lies (it is not Z80 code:
      \* the bytes it moves or compares do not travel over the contended bus)
      [] e.ev = "trapdur" ->
            /\ IF e.contended = e.uncontended THEN bad' = bad
               ELSE Report("ldbytes", [why |-> "the fast-load shortcut takes a different time for data in contended RAM", t |-> e.t,
                                       load |-> e.load, contended |-> e.contended, uncontended |-> e.uncontended])
            /\ UNCHANGED <<tape, ob, armed, junk, autoStopped, cursor>>

NextSlack(e) == IF e.ev = "tape" THEN (IF "slack" \in DOMAIN e THEN e.slack ELSE 0) ELSE slack
TraceNext == l <= Len(Rec) /\ Step(Rec[l]) /\ slack' = NextSlack(Rec[l]) /\ l' = l + 1
TraceSpec == TraceInit /\ [][TraceNext]_tvars
TraceAccepted ==
    LET d == TLCGet("stats").diameter IN
    IF d - 1 = Len(Rec) THEN TRUE ELSE Print(<<"TRACE-NOT-CONSUMED", d - 1, Len(Rec)>>, FALSE)
Summary == (l = Len(Rec) + 1) => PrintT(<<"SUMMARY", Len(Rec), bad>>)
=============================================================================
