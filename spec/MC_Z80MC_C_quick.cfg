SPECIFICATION Spec
CONSTANTS
  ROM <- RomC
  Depth = 14
INVARIANTS IntOnlyWhenAllowed NmiNotInsidePrefix AckFlipFlops AckTarget AckTime HaltedStays EntersHalt RetnCopies ShadowMatches
CHECK_DEADLOCK FALSE
