SPECIFICATION Spec
CONSTANTS
  Depth = 5
  Devs = {}
INVARIANT Refines
CHECK_DEADLOCK FALSE
