SPECIFICATION Spec
CONSTANTS
  Spf = 3
  MaxLen = 5
  Stereo = TRUE
INVARIANTS PrefixOfCanon EndMeansAll NoEarlyStall
CHECK_DEADLOCK FALSE
