-------------------------------- MODULE Mixer --------------------------------
(* C19: audio pacing. Exact integer arithmetic; F = T-states per frame,          *)
(* spf = samples per frame = floor(sample_rate / 50).                            *)
(* Implementation-shaped: the mixer's queue, in-frame sample cursor and the      *)
(* level latched by the last port write; one action per wait_internal call,      *)
(* port write, frame end and host drain.                                         *)
(* Statement-shaped: sample k of a frame carries the level the program had set   *)
(* at frame time k * F / spf, give or take one sample.                           *)
EXTENDS Bits, Sequences, TLC

\* sample index that is due at in-frame time t: floor(spf * t / F), capped at spf
DuePos(spf, F, t) == IF t >= F THEN spf ELSE (spf * t) \div F

\* mx = [q (sequence of levels queued), last (samples generated this frame), lvl (current speaker level)]
MxInit == [q |-> <<>>, last |-> 0, lvl |-> 0]
\* process(): called after every advance of the clock
Process(mx, spf, F, t) ==
    IF Len(mx.q) >= spf THEN mx                                    \* queue holds a frame already: nothing is generated
    ELSE LET cur == DuePos(spf, F, t) IN
         IF cur <= mx.last THEN mx
         ELSE [mx EXCEPT !.q = @ \o [i \in 1..(cur - mx.last) |-> mx.lvl], !.last = cur]
\* new_frame(): pad with the last generated sample up to spf, restart the cursor
NewFrame(mx, spf, lastSample) ==
    [mx EXCEPT !.q = IF Len(@) < spf THEN @ \o [i \in 1..(spf - Len(@)) |-> lastSample] ELSE @, !.last = 0]

\* statement: where may the edge caused by a write at in-frame time tw appear in the frame's samples?
\* "an output edge lands within one sample of the port write that caused it"
EdgeOk(spf, F, tw, idx, slackT) ==
    \* idx = 0-based index of the first sample carrying the new level; slackT = uncertainty of tw itself
    /\ idx >= ((spf * (tw - slackT)) \div F) - 1
    /\ idx <= ((spf * (tw + slackT)) \div F) + 2
=============================================================================
