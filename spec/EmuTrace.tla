------------------------------- MODULE EmuTrace -------------------------------
(* C16 trace validation: digests of the whole machine (registers, clock, all RAM,  *)
(* both frame buffers, border colour, paging) after every completed frame, for the *)
(* same scenario under different host drivings. "a deterministic function of the   *)
(* initial machine state and the sequence of host inputs applied at frame          *)
(* boundaries": the digest is a function of (scenario, frame index) alone.         *)
EXTENDS Integers, Sequences, Json, IOUtils, TLC, FiniteSets

Rec == ndJsonDeserialize(IOEnv.TRACE)
VARIABLES l, ref, refAudio, scen, bad
tvars == <<l, ref, refAudio, scen, bad>>
TraceInit == l = 1 /\ ref = <<>> /\ refAudio = <<>> /\ scen = -1 /\ bad = 0

AsFn(ds) == [i \in {ds[k][1] : k \in DOMAIN ds} |-> (CHOOSE k \in DOMAIN ds : ds[k][1] = i)]
Step(e) ==
    IF e.scenario # scen
    THEN \* first driving of a scenario is the reference
         /\ scen' = e.scenario /\ ref' = e.digests /\ refAudio' = e.audio /\ bad' = bad
    ELSE LET refIdx == AsFn(ref)
             diff == {k \in DOMAIN e.digests :
                        e.digests[k][1] \in DOMAIN refIdx /\ ref[refIdx[e.digests[k][1]]][2] # e.digests[k][2]}
             audioBad == e.audio # <<>> /\ refAudio # <<>> /\ e.audio # refAudio
         IN /\ UNCHANGED <<scen, ref, refAudio>>
            /\ IF diff = {} /\ ~audioBad /\ ~e.stuck /\ Len(e.digests) = Len(ref) - (Len(ref) - Len(e.digests)) THEN bad' = bad
               ELSE /\ PrintT(<<"MISMATCH", l, e.driving,
                               [scenario |-> e.scenario, stuck |-> e.stuck, frames |-> {e.digests[k][1] : k \in diff}, audio |-> audioBad,
                                first |-> IF diff = {} THEN 0 ELSE e.digests[CHOOSE k \in diff : \A j \in diff : k <= j][1]]>>)
                    /\ bad' = bad + 1

TraceNext == l <= Len(Rec) /\ Step(Rec[l]) /\ l' = l + 1
TraceSpec == TraceInit /\ [][TraceNext]_tvars
TraceAccepted ==
    LET d == TLCGet("stats").diameter IN
    IF d - 1 = Len(Rec) THEN TRUE ELSE Print(<<"TRACE-NOT-CONSUMED", d - 1, Len(Rec)>>, FALSE)
Summary == (l = Len(Rec) + 1) => PrintT(<<"SUMMARY", Len(Rec), bad>>)
=============================================================================
