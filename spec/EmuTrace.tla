------------------------------- MODULE EmuTrace -------------------------------
(* C16 trace validation: digests of the whole machine (registers, clock, all RAM,  *)
(* both frame buffers, border colour, paging) after every completed frame, for the *)
(* same scenario under different host drivings. "a deterministic function of the   *)
(* initial machine state and the sequence of host inputs applied at frame          *)
(* boundaries": the digest is a function of (scenario, frame index) alone.         *)
EXTENDS Integers, Sequences, Json, IOUtils, TLC, FiniteSets

Rec == ndJsonDeserialize(IOEnv.TRACE)
VARIABLES l, ref, refAudio, scen, bad
tvars == <<l, ref, refAudio, scen, bad>>
TraceInit == l = 1 /\ ref = <<>> /\ refAudio = <<>> /\ scen = -1 /\ bad = 0

\* digests are <<frame number, digest>> pairs in increasing frame order; drivings that hand control back only every
\* n frames report a subsequence of the reference's frames. (TLC re-evaluates LET definitions per use: values that are
\* used inside a quantifier are bound with a singleton \E instead.)
Step(e) ==
    IF e.scenario # scen
    THEN \* first driving of a scenario is the reference
         /\ scen' = e.scenario /\ ref' = e.digests /\ refAudio' = e.audio /\ bad' = bad
    ELSE \E refAt \in {[f \in {ref[k][1] : k \in DOMAIN ref} |-> 0] @@ [k \in {} |-> 0]} :
         \E byFrame \in {[k \in DOMAIN ref |-> ref[k][1]]} :
         \* frame f of the reference sits at index f whenever the reference reports every frame (it always does: "one")
         \E dense \in {\A k \in DOMAIN ref : byFrame[k] = k} :
         LET RefDigest(f) == IF dense THEN ref[f][2] ELSE ref[CHOOSE k \in DOMAIN ref : byFrame[k] = f][2]
             known(f) == f \in DOMAIN refAt
             diff == {k \in DOMAIN e.digests : known(e.digests[k][1]) /\ RefDigest(e.digests[k][1]) # e.digests[k][2]}
             audioBad == e.audio # <<>> /\ refAudio # <<>> /\ e.audio # refAudio
         IN /\ UNCHANGED <<scen, ref, refAudio>>
            /\ \E d \in {diff} :
               IF d = {} /\ ~audioBad /\ ~e.stuck THEN bad' = bad
               ELSE /\ PrintT(<<"MISMATCH", l, e.driving,
                               [scenario |-> e.scenario, stuck |-> e.stuck, frames |-> {e.digests[k][1] : k \in d}, audio |-> audioBad,
                                first |-> IF d = {} THEN 0 ELSE e.digests[CHOOSE k \in d : \A j \in d : k <= j][1]]>>)
                    /\ bad' = bad + 1

TraceNext == l <= Len(Rec) /\ Step(Rec[l]) /\ l' = l + 1
TraceSpec == TraceInit /\ [][TraceNext]_tvars
TraceAccepted ==
    LET d == TLCGet("stats").diameter IN
    IF d - 1 = Len(Rec) THEN TRUE ELSE Print(<<"TRACE-NOT-CONSUMED", d - 1, Len(Rec)>>, FALSE)
Summary == (l = Len(Rec) + 1) => PrintT(<<"SUMMARY", Len(Rec), bad>>)
=============================================================================
