--------------------------------- MODULE Vtx ---------------------------------
(* C20: VTX playback. A track is a sequence of frames, each a sequence of 14     *)
(* register values. Statement-shaped: the canonical event log - frame k's        *)
(* register writes (R13 = 0xFF: not written) immediately before output sample    *)
(* k * spf, spf samples per frame, nothing after the last frame.                 *)
(* Implementation-shaped: the player's (frame, frame_sample) state and one       *)
(* action per play() call, mono or stereo, for any buffer length.                *)
EXTENDS Bits, Sequences, TLC

\* events: <<"w", reg, val>> register write, <<"s">> one output sample (per channel pair)
FrameWrites(f) == SelectSeq([r \in 1..14 |-> <<"w", r - 1, f[r]>>], LAMBDA e : ~(e[2] = 13 /\ e[3] = 255))
RECURSIVE Canon(_, _)
Canon(track, spf) ==
    IF track = <<>> \/ spf = 0 THEN <<>>
    ELSE FrameWrites(Head(track)) \o [i \in 1..spf |-> <<"s">>] \o Canon(Tail(track), spf)
\* "produces frames * floor(sample_rate / player_frequency) samples per channel in total"
TotalSamples(track, spf) == Len(track) * spf

\* ---- implementation-shaped ---------------------------------------------------------------
\* p = [frame, fs]; one pass of the per-sample loop: returns the new state and the events emitted,
\* or "end" when there is no frame left at a frame start
RECURSIVE Loop(_, _, _, _)
Loop(track, spf, p, n) ==      \* n = number of sample slots offered by the buffer
    IF n = 0 THEN [p |-> p, ev |-> <<>>, done |-> 0, ended |-> FALSE]
    ELSE IF p.fs = 0 /\ p.frame >= Len(track) THEN [p |-> p, ev |-> <<>>, done |-> 0, ended |-> TRUE]
    ELSE LET w == IF p.fs = 0 THEN FrameWrites(track[p.frame + 1]) ELSE <<>>
             fs1 == p.fs + 1
             p1 == IF fs1 = spf THEN [frame |-> p.frame + 1, fs |-> 0] ELSE [frame |-> p.frame, fs |-> fs1]
             rest == Loop(track, spf, p1, n - 1)
         IN [p |-> rest.p, ev |-> w \o << <<"s">> >> \o rest.ev, done |-> rest.done + 1, ended |-> rest.ended]
\* play(buffer of length len): stereo consumes the buffer in pairs (an odd last element is left alone)
Play(track, spf, p, len, stereo) ==
    LET slots == IF stereo THEN len \div 2 ELSE len
        r == Loop(track, spf, p, slots)
    IN [p |-> r.p, ev |-> r.ev, ret |-> IF stereo THEN r.done * 2 ELSE r.done, ended |-> r.ended]

\* "decoding a VTX file turns its register-major data into frame-major order"
Transposed(raw, i) == LET frames == Len(raw) \div 14 IN raw[((i - 1) % 14) * frames + ((i - 1) \div 14) + 1]
=============================================================================
