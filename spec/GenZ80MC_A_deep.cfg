SPECIFICATION GSpec
CONSTANTS
  ROM <- RomA
  Depth = 7
INVARIANT Emit
CHECK_DEADLOCK FALSE
