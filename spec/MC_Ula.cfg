SPECIFICATION Spec
CONSTANTS
  M = 48
  Steps = {4, 7, 11, 16, 21, 23}
INVARIANTS Conservation OncePerFrame InFrame
CHECK_DEADLOCK FALSE
