------------------------------ MODULE MC_Screen ------------------------------
(* Constant-level: the implementation's address->(line, column) maps are the    *)
(* inverse of the statement's offset formulas for all 6912 offsets.             *)
EXTENDS Screen, TLC
ASSUME \A y \in 0..191, c \in 0..31 :
          LET o == BitmapOff(y, c) IN o < 6144 /\ ImplLine(o) = y /\ ImplCol(o) = c
ASSUME \A o \in 0..6143 : BitmapOff(ImplLine(o), ImplCol(o)) = o
ASSUME \A y \in 0..191, c \in 0..31 :
          LET o == AttrOff(y, c) IN o >= 6144 /\ o < 6912 /\ ImplAttrRow(o) = y \div 8 /\ ImplAttrCol(o) = c
\* the statement's own bit formula equals BitmapOff
ASSUME \A y \in 0..191, c \in 0..31 :
          BitmapOff(y, c) = (((y \div 64) * 64) * 32) + ((y % 8) * 256) + ((((y \div 8) % 8) * 8) * 4) + c
ASSUME PrintT(<<"CASES", 6144 * 3 + 6144>>)
=============================================================================
