SPECIFICATION Spec
CONSTANTS
  Spf = 7
  F = 20
  Frames = 2
  Drain = "always"
  MaxW = 3
INVARIANT Paced
CHECK_DEADLOCK FALSE
