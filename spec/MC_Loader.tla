------------------------------- MODULE MC_Loader -------------------------------
(* Termination of the modelled walkers on every abstract input of up to 6 tokens:  *)
(* the number of loop passes is bounded by the input length + 1.                   *)
EXTENDS Loader

CONSTANTS EofStops
VARIABLES w, s, input
vars == <<w, s, input>>

Sizes == 0..7
Inputs == UNION {[len : {n}, sizeAt : [0..6 -> Sizes]] : n \in 0..6}
Strings == UNION {[1..n -> {0, 1}] : n \in 0..7}

Init == /\ input \in [walk : {[len |-> n, sizeAt |-> f] : n \in 0..6, f \in {[p \in 0..6 |-> (p * k + j) % 8] : k \in 0..3, j \in 0..7}},
                      str : Strings]
        /\ w = WalkInit /\ s = ScanInit
Next == \/ /\ w.out = "running" /\ w' = WalkStep(2, input.walk.len, input.walk.sizeAt, w) /\ UNCHANGED <<s, input>>
        \/ /\ s.out = "running" /\ s' = ScanStep(3, input.str, EofStops, s) /\ UNCHANGED <<w, input>>
Spec == Init /\ [][Next]_vars

\* progress: bounded number of passes
WalkTerminates == w.steps <= input.walk.len + 1
ScanTerminates == s.steps <= Len(input.str) + 2
Outcome == w.out \in {"running", "ok", "err"} /\ s.out \in {"running", "ok", "err"}
=============================================================================
