SPECIFICATION Spec
CONSTANTS
  Spf = 4
  F = 14
  Frames = 2
  Drain = "any"
  MaxW = 2
INVARIANT Paced
CHECK_DEADLOCK FALSE
