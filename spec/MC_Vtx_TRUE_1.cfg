SPECIFICATION Spec
CONSTANTS
  Spf = 1
  MaxLen = 5
  Stereo = TRUE
INVARIANTS PrefixOfCanon EndMeansAll NoEarlyStall
CHECK_DEADLOCK FALSE
