SPECIFICATION Spec
CONSTANTS
  Spf = 1
  MaxLen = 5
  Stereo = FALSE
INVARIANTS PrefixOfCanon EndMeansAll NoEarlyStall
CHECK_DEADLOCK FALSE
