------------------------------- MODULE Bits -------------------------------
(* Byte / word arithmetic shared by all modules. Plain integer arithmetic    *)
(* (div/mod) is used instead of the Bitwise community module wherever the    *)
(* operand is a single bit or a field, because TLC evaluates it much faster;   *)
(* whole-byte AND/OR/XOR use the community module's Java implementation.      *)
EXTENDS Naturals, Integers, Sequences, Bitwise

Byte == 0..255
Word == 0..65535

Pow2(n) == 2^n
Bit(v, n) == (v \div Pow2(n)) % 2
Lo(w) == w % 256
Hi(w) == (w \div 256) % 256
Mk16(h, l) == h * 256 + l
W16(x) == x % 65536
B8(x) == x % 256
\* two's complement value of a byte
SignExt(b) == IF b >= 128 THEN b - 256 ELSE b

RECURSIVE AndN(_, _, _), OrN(_, _, _), XorN(_, _, _)
AndN(a, b, n) == IF n = 0 THEN 0 ELSE 2 * AndN(a \div 2, b \div 2, n - 1) + ((a % 2) * (b % 2))
OrN(a, b, n)  == IF n = 0 THEN 0 ELSE 2 * OrN(a \div 2, b \div 2, n - 1) + (IF (a % 2) + (b % 2) > 0 THEN 1 ELSE 0)
XorN(a, b, n) == IF n = 0 THEN 0 ELSE 2 * XorN(a \div 2, b \div 2, n - 1) + (((a % 2) + (b % 2)) % 2)
And8(a, b) == a & b
Or8(a, b)  == a | b
Xor8(a, b) == a ^^ b
And16(a, b) == a & b
Or16(a, b)  == a | b
Xor16(a, b) == a ^^ b

\* even parity of a byte: 1 when the number of set bits is even
Parity(b) == 1 - ((Bit(b,0) + Bit(b,1) + Bit(b,2) + Bit(b,3) + Bit(b,4) + Bit(b,5) + Bit(b,6) + Bit(b,7)) % 2)

Lesser(a, b) == IF a < b THEN a ELSE b
Greater(a, b) == IF a > b THEN a ELSE b
=============================================================================
