------------------------------ MODULE UlaTrace ------------------------------
(* C04 / C05 trace validation. "mstep" events: one emulate() call of the full *)
(* machine from a known in-frame time; the spec derives the bus operations    *)
(* from Z80.tla, folds them through the contention model of Ula.tla and       *)
(* requires the observed clock (and frame wrap) to be exactly that. "run" /   *)
(* "haltrun" events: free-running programs over many frames (conservation of  *)
(* T-states, one interrupt per frame).                                        *)
EXTENDS Ula, Json, IOUtils, Sequences, TLC

Rec == ndJsonDeserialize(IOEnv.TRACE)

VARIABLES l, m, banks, bad
tvars == <<l, m, banks, bad>>
TraceInit == l = 1 /\ m = 48 /\ banks = <<>> /\ bad = 0

PathFields == {"pc", "sp", "halted", "iff1", "iff2", "pfx", "ei", "im"}

MStep(e) ==
    \* (a RAM bank visible through two windows - 128K with bank 2 or 5 paged at 0xC000 - is told to the CPU model, which
    \*  lets the bytes pushed by an interrupt acknowledge be read back through the other window within the same call)
    LET aliasBank == IF m = 128 /\ banks[4][1] = "ram" /\ banks[4][2] \in {2, 5} THEN banks[4][2] ELSE 0
        env == [alias |-> aliasBank] @@ [e.env EXCEPT !.int = IntActive(m, e.t0)]
        o == CHOOSE x \in Outcomes(e.pre, env) : TRUE
        endT == RunOps(m, banks, e.t0, o.ack \o o.ops)
        wantT == endT % Frame(m)
        wantWrap == endT >= Frame(m)
        gotWrap == e.t1 < e.t0
        pathDiff == Diff(o.s, e.post, PathFields)
    IN IF wantT = e.t1 /\ wantWrap = gotWrap /\ pathDiff = {} THEN bad' = bad
       ELSE /\ PrintT(<<"MISMATCH", l, e.tag,
                        [m |-> m, t0 |-> e.t0, got |-> e.t1, want |-> wantT, wrap |-> wantWrap, path |-> pathDiff,
                         acked |-> o.acked, ops |-> o.ack \o o.ops, banks |-> banks]>>)
            /\ bad' = bad + 1

\* free-running program observed at a loop boundary after `frames` complete frames: `iters` passes of a
\* loop of `loopT` T-states plus `ints` services of the IM 1 interrupt (`intT` T-states each, longer than
\* the 32-T pulse). "no T-state is ever lost": the T-states executed equal the clock that passed;
\* "interrupted exactly once per frame at the frame start": one service per frame start seen with
\* interrupts enabled (the pulse of the current frame is still pending while T < 32).
B2(b) == IF b THEN 1 ELSE 0
Run(e) ==
    LET elapsed == e.iters * e.loopT + e.ints * e.intT
        clock == e.frames * Frame(m) + e.t1 - e.t0
        wantInts == IF e.ei THEN e.frames + B2(e.t0 < 32) - B2(e.t1 < 32) ELSE 0
        ok == elapsed = clock /\ e.ints = wantInts
    IN IF ok THEN bad' = bad
       ELSE /\ PrintT(<<"MISMATCH", l, e.tag, [m |-> m, elapsed |-> elapsed, clock |-> clock, ints |-> e.ints,
                                              frames |-> e.frames, wantInts |-> wantInts]>>)
            /\ bad' = bad + 1
\* HALT; INC HL; JP loop with interrupts enabled: exactly one wake-up per frame; back at the HALT
\* 13 + 48 + 6 + 10 = 77 T-states after the acknowledge, which starts within one HALT cycle (4 T) of the frame start
HaltRun(e) ==
    LET wantInts == e.frames + B2(e.t0 < 32)
        \* (a run that starts inside the INT pulse is interrupted once before it reaches its first HALT: that service wakes nothing)
        ok == e.ints = wantInts /\ e.iters = e.frames /\ e.t1 >= 77 /\ e.t1 <= 80
    IN IF ok THEN bad' = bad
       ELSE /\ PrintT(<<"MISMATCH", l, e.tag, [m |-> m, ints |-> e.ints, iters |-> e.iters, frames |-> e.frames,
                                              t1 |-> e.t1, wantInts |-> wantInts]>>)
            /\ bad' = bad + 1

Step(e) ==
    CASE e.ev = "reset" -> m' = e.m /\ banks' = e.banks /\ bad' = bad
      [] e.ev = "mstep" -> MStep(e) /\ UNCHANGED <<m, banks>>
      [] e.ev = "run" -> Run(e) /\ UNCHANGED <<m, banks>>
      [] e.ev = "haltrun" -> HaltRun(e) /\ UNCHANGED <<m, banks>>

TraceNext == l <= Len(Rec) /\ Step(Rec[l]) /\ l' = l + 1
TraceSpec == TraceInit /\ [][TraceNext]_tvars
TraceAccepted ==
    LET d == TLCGet("stats").diameter IN
    IF d - 1 = Len(Rec) THEN TRUE ELSE Print(<<"TRACE-NOT-CONSUMED", d - 1, Len(Rec)>>, FALSE)
Summary == (l = Len(Rec) + 1) => PrintT(<<"SUMMARY", Len(Rec), bad>>)
=============================================================================
