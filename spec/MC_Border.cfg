SPECIFICATION Spec
CONSTANTS
  MaxW1 = 3
  MaxW2 = 0
  Frames = 1
INVARIANT BorderOk
CHECK_DEADLOCK FALSE
