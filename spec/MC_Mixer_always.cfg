SPECIFICATION Spec
CONSTANTS
  Spf = 4
  F = 14
  Frames = 2
  Drain = "always"
  MaxW = 2
INVARIANT Paced
CHECK_DEADLOCK FALSE
