-------------------------------- MODULE Tape --------------------------------
(* C10 / C11 / C12: TAP images, the ROM's LD-BYTES block loader, the standard *)
(* loader waveform and the cassette deck.                                     *)
(*                                                                            *)
(*  - LdBytes: the ROM routine 0x0556..0x05E2 at byte level (statement of C10) *)
(*  - Observer: statement-shaped acceptor for the waveform of a tape, fed one  *)
(*    completed pulse at a time (C11), able to survive stop/play gaps and to   *)
(*    restart after rewind / end of tape (C12)                                 *)
(*  - Player: implementation-shaped pulse generator (one action per public     *)
(*    call of the tape object), used by the scaled exhaustive model MC_Tape    *)
(* All timing constants come in through the record K so that the same text is  *)
(* used with the real numbers (trace validation) and with scaled numbers       *)
(* (exhaustive exploration).                                                   *)
EXTENDS Bits, Sequences, SequencesExt, TLC

\* the numbers of the statement
RealK == [pilot |-> 2168, hdrPulses |-> 8063, dataPulses |-> 3223, sync1 |-> 667, sync2 |-> 735,
          bit0 |-> 855, bit1 |-> 1710, pauseLen |-> 3500000, pauseMin |-> 1750000, pauseMax |-> 7000000, tol |-> 32, bits |-> 8, slack |-> 0]

\* ---------------------------------------------------------------------------------------------
\* LD-BYTES.  A = expected flag byte, load = carry on entry (TRUE: LOAD, FALSE: VERIFY), IX, DE,
\* blk = the bytes of the tape block (flag .. checksum), mem(a) = memory before, writable(a).
\* The ROM reads a byte, XORs it into H, then: DE = 0 -> finish with carry := (H = 0); first byte
\* (unless D was 0xFF on entry: INC D sets Z) -> compare with A, mismatch returns at once; other
\* bytes -> store / compare at IX, IX+1, DE-1.  Running out of tape is a time-out (carry reset).
\* ---------------------------------------------------------------------------------------------
XorAll(seq) == FoldLeft(LAMBDA acc, b : Xor8(acc, b), 0, seq)

LdBytes(A, load, IX, DE, blk, mem(_), writable(_)) ==
    LET n == Len(blk)
        flagDone == (DE \div 256) = 255          \* D = 0xFF: the flag byte is treated as data
        first == IF flagDone THEN 1 ELSE 2       \* index of the first data byte
        Same(j) == mem(W16(IX + j)) = blk[first + j]
        \* number of data bytes handled before the routine stops
        avail == IF n >= first THEN n - first + 1 ELSE 0        \* data bytes present on tape
        want == DE                                              \* data bytes requested
        upto == Lesser(avail, want)
        \* VERIFY: index of the first differing byte among those that would be compared
        bad == IF load THEN {} ELSE {j \in 0..(upto - 1) : ~Same(j)}
        stop == IF bad = {} THEN upto ELSE CHOOSE j \in bad : \A k \in bad : j <= k
        Result(carry, cnt) ==
            [carry |-> carry, ix |-> W16(IX + cnt), de |-> DE - cnt, stored |-> IF load THEN cnt ELSE 0,
             first |-> first]
    IN IF n = 0 THEN Result(FALSE, 0)
       ELSE IF DE = 0 THEN Result(blk[1] = 0, 0)                      \* flag byte taken as parity byte
       ELSE IF ~flagDone /\ blk[1] # A THEN Result(FALSE, 0)           \* wrong block type
       ELSE IF bad # {} THEN Result(FALSE, stop)                      \* verify error at byte `stop`
       ELSE IF avail < want + 1 THEN Result(FALSE, upto)              \* block too short: time-out
       ELSE Result(XorAll(SubSeq(blk, 1, first + want)) = 0, want)    \* parity over everything read

\* The same routine as the ROM executes it, byte by byte (LD-LOOP / LD-FLAG / LD-VERIFY / LD-NEXT /
\* LD-DEC / LD-MARKER, parity in H): used to cross-check the closed form above by TLC.
\* st = [i (next byte), z (Z flag in AF': flag byte done), h, ix, de, mem (function of written cells)]
RECURSIVE LdRomRun(_, _, _, _, _, _)
LdRomRun(A, load, blk, mem(_), writable(_), st) ==
    IF st.i > Len(blk) THEN [carry |-> FALSE, ix |-> st.ix, de |-> st.de, wr |-> st.wr]       \* LD-EDGE time-out: RET NC
    ELSE LET L == blk[st.i]
             h2 == Xor8(st.h, L)
         IN IF st.de = 0 THEN [carry |-> h2 = 0, ix |-> st.ix, de |-> st.de, wr |-> st.wr]     \* LD A,H / CP 1
            ELSE IF ~st.z                                                                         \* LD-FLAG
            THEN IF Xor8(A, L) # 0 THEN [carry |-> FALSE, ix |-> st.ix, de |-> st.de, wr |-> st.wr]
                 ELSE LdRomRun(A, load, blk, mem, writable, [st EXCEPT !.i = @ + 1, !.z = TRUE, !.h = h2])
            ELSE LET cur == IF st.ix \in DOMAIN st.wr THEN st.wr[st.ix] ELSE mem(st.ix) IN
                 IF ~load /\ cur # L THEN [carry |-> FALSE, ix |-> st.ix, de |-> st.de, wr |-> st.wr]   \* LD-VERIFY
                 ELSE LdRomRun(A, load, blk, mem, writable,
                               [st EXCEPT !.i = @ + 1, !.h = h2, !.ix = W16(@ + 1), !.de = @ - 1,
                                          !.wr = IF load /\ writable(st.ix) THEN (st.ix :> L) @@ st.wr ELSE st.wr])
LdRom(A, load, IX, DE, blk, mem(_), writable(_)) ==
    LdRomRun(A, load, blk, mem, writable,
             [i |-> 1, z |-> ((DE \div 256) = 255), h |-> 0, ix |-> IX, de |-> DE, wr |-> <<>>])

\* memory after the call at address a (j-th cell of the destination when stored)
LdMemAfter(r, IX, blk, mem(_), writable(_), a) ==
    LET j == W16(a + 65536 - IX) IN
    IF j < r.stored /\ writable(a) THEN blk[r.first + j] ELSE mem(a)

\* ---------------------------------------------------------------------------------------------
\* Statement-shaped waveform observer.
\* ob = [blk, stage, cnt, byte, bit, half, bad, decoded]
\*   stage: "lead" (pilot pulses, then sync 1), "sync2", "bits", "pause", "end" (tape finished),
\*          "junk" (after a rewind issued while playing: not judged until the deck is stopped)
\* A pulse of d T-states belongs to class c when c <= d <= c + tol.
\* ---------------------------------------------------------------------------------------------
\* (K.slack: uncertainty of the instrument that measured d - 0 when the pulse generator is read after every step, the
\* longest instruction when the level is sampled at instruction boundaries of a running machine)
In(K, d, nominal) == d + K.slack >= nominal /\ d <= nominal + K.tol + K.slack

ObInit == [blk |-> 1, stage |-> "lead", cnt |-> 0, byte |-> 1, bit |-> 1, half |-> 1, bad |-> "", decoded |-> 0]

\* "a pilot tone of 8063 pulses when the flag byte is 0x00 and at least 3223 pulses otherwise (give or
\*  take the very first pulse, which may merge with the preceding silence)"
PilotOk(K, flag, cnt) ==
    IF flag = 0 THEN cnt >= K.hdrPulses - 1 /\ cnt <= K.hdrPulses + 1
    ELSE cnt >= K.dataPulses - 1

BitOf(K, b, i) == Bit(b, K.bits - i)            \* i = 1 is the most significant bit

Fail(ob, why) == [ob EXCEPT !.bad = why]

\* one completed pulse of d T-states (measured in playing time)
Feed(K, tape, ob, d) ==
    IF ob.bad # "" \/ ob.stage = "junk" THEN ob
    ELSE IF ob.stage = "end" THEN Fail(ob, "pulse after the end of the tape")
    ELSE LET blk == tape[ob.blk] IN
    CASE ob.stage = "lead" ->
            IF In(K, d, K.pilot) THEN [ob EXCEPT !.cnt = @ + 1]
            ELSE IF In(K, d, K.sync1) /\ PilotOk(K, blk[1], ob.cnt) THEN [ob EXCEPT !.stage = "sync2"]
            ELSE Fail(ob, "bad pilot/sync1 pulse")
      [] ob.stage = "sync2" ->
            IF In(K, d, K.sync2) THEN [ob EXCEPT !.stage = "bits", !.byte = 1, !.bit = 1, !.half = 1]
            ELSE Fail(ob, "bad sync2 pulse")
      [] ob.stage = "bits" ->
            LET want == IF BitOf(K, blk[ob.byte], ob.bit) = 1 THEN K.bit1 ELSE K.bit0 IN
            IF ~In(K, d, want) THEN Fail(ob, "bad bit pulse")
            ELSE IF ob.half = 1 THEN [ob EXCEPT !.half = 2]
            ELSE IF ob.bit < K.bits THEN [ob EXCEPT !.half = 1, !.bit = @ + 1]
            ELSE IF ob.byte < Len(blk) THEN [ob EXCEPT !.half = 1, !.bit = 1, !.byte = @ + 1]
            ELSE [ob EXCEPT !.stage = "pause", !.decoded = @ + 1]
      [] ob.stage = "pause" ->
            \* "then a pause of about one second"; the first pilot pulse of the next block may merge with it
            IF d >= K.pauseMin /\ d <= K.pauseMax
            THEN IF ob.blk < Len(tape) THEN [ob EXCEPT !.blk = @ + 1, !.stage = "lead", !.cnt = 0]
                 ELSE [ob EXCEPT !.stage = "end"]
            ELSE IF ob.blk < Len(tape) /\ d >= K.pauseMin + K.pilot /\ d <= K.pauseMax + K.pilot + K.tol
            THEN [ob EXCEPT !.blk = @ + 1, !.stage = "lead", !.cnt = 1]
            ELSE Fail(ob, "bad pause")

\* ---------------------------------------------------------------------------------------------
\* Implementation-shaped player: the pulse generator as the tape object is built.
\* p = [st, prev, delay, bit, pos, ended]   st, prev are records [k |-> kind, ...]
\*   pos = [blk, byte]: the byte of the current block that was handed out last (byte = 0: none yet);
\*   blk = 0: no block opened yet. Stopped <=> st.k = "stop".
\* GuardStop / RewindResets select the behaviour before/after the repair of the deck commands.
\* ---------------------------------------------------------------------------------------------
S(k) == [k |-> k, n |-> 0, mask |-> 0, len |-> 0]
PInit == [st |-> S("stop"), prev |-> S("stop"), delay |-> 0, bit |-> 0, pos |-> [blk |-> 0, byte |-> 0],
          ended |-> FALSE, curbyte |-> 0]

PRewind(p, RewindResets) ==
    LET q == [p EXCEPT !.bit = 0, !.curbyte = 0, !.pos = [blk |-> 0, byte |-> 0], !.delay = 0, !.ended = FALSE] IN
    IF RewindResets
    THEN [q EXCEPT !.prev = S("stop"), !.st = IF p.st.k = "stop" THEN p.st ELSE S("play")]
    ELSE q
PStop(p, GuardStop) ==
    IF GuardStop /\ p.st.k = "stop" THEN p
    ELSE [p EXCEPT !.prev = p.st, !.st = S("stop")]
PPlay(p) ==
    IF p.st.k # "stop" THEN p
    ELSE IF p.prev.k = "stop" THEN [p EXCEPT !.st = S("play")] ELSE [p EXCEPT !.st = p.prev]

\* next byte of the open block, if any
HasByte(tape, p) == p.pos.blk >= 1 /\ p.pos.blk <= Len(tape) /\ p.pos.byte < Len(tape[p.pos.blk])

\* the state machine of process_clocks, run until it "breaks"
RECURSIVE PRun(_, _, _, _)
PRun(K, tape, p, RewindResets) ==
    CASE p.st.k = "stop" -> [PRewind(p, RewindResets) EXCEPT !.st = S("stop")]
      [] p.st.k = "play" ->
            IF p.ended \/ p.pos.blk >= Len(tape)
            THEN PRun(K, tape, [p EXCEPT !.st = S("stop"), !.ended = TRUE], RewindResets)
            ELSE LET b == p.pos.blk + 1   first == tape[b][1] IN
                 [p EXCEPT !.pos = [blk |-> b, byte |-> 1], !.curbyte = first, !.bit = 1, !.delay = K.pilot,
                           !.st = [S("pilot") EXCEPT !.n = IF first = 0 THEN K.hdrPulses ELSE K.dataPulses]]
      [] p.st.k = "pilot" ->
            IF p.st.n = 1 THEN [p EXCEPT !.bit = 1 - @, !.delay = K.sync1, !.st = S("sync")]
            ELSE [p EXCEPT !.bit = 1 - @, !.delay = K.pilot, !.st.n = @ - 1]
      [] p.st.k = "sync" ->
            [p EXCEPT !.bit = 1 - @, !.delay = K.sync2, !.st = [S("nextbit") EXCEPT !.mask = 1]]
      [] p.st.k = "nextbyte" ->
            IF HasByte(tape, p)
            THEN PRun(K, tape, [p EXCEPT !.pos.byte = @ + 1, !.curbyte = tape[p.pos.blk][p.pos.byte + 1],
                                         !.st = [S("nextbit") EXCEPT !.mask = 1]], RewindResets)
            ELSE PRun(K, tape, [p EXCEPT !.st = S("pause")], RewindResets)
      [] p.st.k = "nextbit" ->       \* mask counts bits from the most significant one: 1..bits
            LET len == IF BitOf(K, p.curbyte, p.st.mask) = 1 THEN K.bit1 ELSE K.bit0 IN
            [p EXCEPT !.bit = 1 - @, !.delay = len, !.st = [S("bithalf") EXCEPT !.mask = p.st.mask, !.len = len]]
      [] p.st.k = "bithalf" ->
            [p EXCEPT !.bit = 1 - @, !.delay = p.st.len,
                      !.st = IF p.st.mask = K.bits THEN S("nextbyte") ELSE [S("nextbit") EXCEPT !.mask = p.st.mask + 1]]
      [] p.st.k = "pause" ->
            [p EXCEPT !.bit = 1 - @, !.delay = K.pauseLen, !.st = S("play")]

\* process_clocks(c)
PAdvance(K, tape, p, c, RewindResets) ==
    IF p.st.k = "stop" THEN p
    ELSE IF p.delay > 0 THEN [p EXCEPT !.delay = IF c > p.delay THEN 0 ELSE p.delay - c]
    ELSE PRun(K, tape, p, RewindResets)
=============================================================================
