---------------------------- MODULE MixerProofs ----------------------------
(* Unbounded arithmetic facts behind C19's pacing argument, proved with TLAPS   *)
(* for every frame length F and every samples-per-frame count spf (the TLC      *)
(* model MC_Mixer checks the same facts for scaled constants only).             *)
EXTENDS Integers, TLAPS

DuePos(spf, F, t) == IF t >= F THEN spf ELSE (spf * t) \div F

LEMMA DivMono == \A a, b \in Nat, F \in Nat \ {0} : a <= b => a \div F <= b \div F
  <1> TAKE a, b \in Nat, F \in Nat \ {0}
  <1> HAVE a <= b
  <1> DEFINE qa == a \div F
             qb == b \div F
  <1>1 qa \in Int /\ qb \in Int OBVIOUS
  <1>2 a = F * qa + (a % F) /\ 0 <= a % F /\ a % F < F OBVIOUS
  <1>3 b = F * qb + (b % F) /\ 0 <= b % F /\ b % F < F OBVIOUS
  <1>4 SUFFICES ASSUME qa >= qb + 1 PROVE FALSE BY <1>1
  <1>5 F * qa >= F * (qb + 1) BY <1>1, <1>4
  <1>6 F * (qb + 1) = F * qb + F BY <1>1
  <1> HIDE DEF qa, qb
  <1> QED BY <1>1, <1>2, <1>3, <1>5, <1>6

LEMMA DivInt == \A x \in Nat, F \in Nat \ {0} : x \div F \in Int
  OBVIOUS

LEMMA MulMono == \A s, a, b \in Nat : a <= b => s * a <= s * b
  OBVIOUS

\* nothing is due before the frame starts, everything is due when it ends
THEOREM DueEnds == \A spf \in Nat, F \in Nat \ {0} : DuePos(spf, F, 0) = 0 /\ DuePos(spf, F, F) = spf
  BY DEF DuePos

\* the cursor never exceeds spf: a frame never yields more than spf samples
THEOREM DueBounded == \A spf \in Nat, F \in Nat \ {0}, t \in Nat : DuePos(spf, F, t) <= spf
  <1> TAKE spf \in Nat, F \in Nat \ {0}, t \in Nat
  <1>1 CASE t >= F BY <1>1 DEF DuePos
  <1>2 CASE t < F
    <2>1 spf * t <= spf * F BY <1>2, MulMono
    <2>2 (spf * t) \div F <= (spf * F) \div F BY <2>1, DivMono
    <2>3 (spf * F) \div F = spf OBVIOUS
    <2> QED BY <1>2, <2>2, <2>3 DEF DuePos
  <1> QED BY <1>1, <1>2

\* the cursor never moves back however the clock advances: samples are only appended
THEOREM DueMonotone == \A spf \in Nat, F \in Nat \ {0}, t1, t2 \in Nat : t1 <= t2 => DuePos(spf, F, t1) <= DuePos(spf, F, t2)
  <1> TAKE spf \in Nat, F \in Nat \ {0}, t1, t2 \in Nat
  <1> HAVE t1 <= t2
  <1>1 CASE t2 >= F BY <1>1, DueBounded DEF DuePos
  <1>2 CASE t2 < F
    <2>1 spf * t1 <= spf * t2 BY MulMono
    <2>2 (spf * t1) \div F <= (spf * t2) \div F BY <2>1, DivMono
    <2> QED BY <1>2, <2>2 DEF DuePos
  <1> QED BY <1>1, <1>2

\* Mixer.tla's EdgeOk, repeated here so that this module stands alone
EdgeOk(spf, F, tw, idx, slackT) ==
    /\ idx >= ((spf * (tw - slackT)) \div F) - 1
    /\ idx <= ((spf * (tw + slackT)) \div F) + 2

\* The sample cursor at the last process() call before a speaker write (time tp, at most one
\* instruction = slack T-states before the write at tw) is the index of the first sample that
\* carries the new level; it lies in the window the statement allows ("within one sample").
THEOREM EdgeWithinWindow ==
    \A spf \in Nat, F \in Nat \ {0}, tw, tp, slack \in Nat :
        (tw < F /\ slack <= tw /\ tw - slack <= tp /\ tp <= tw) => EdgeOk(spf, F, tw, DuePos(spf, F, tp), slack)
  <1> TAKE spf \in Nat, F \in Nat \ {0}, tw, tp, slack \in Nat
  <1> HAVE tw < F /\ slack <= tw /\ tw - slack <= tp /\ tp <= tw
  <1>0 tw - slack \in Nat /\ tw + slack \in Nat OBVIOUS
  <1>1 DuePos(spf, F, tw - slack) <= DuePos(spf, F, tp) BY <1>0, DueMonotone
  <1>2 DuePos(spf, F, tp) <= DuePos(spf, F, tw) BY DueMonotone
  <1>2a ~(tw - slack >= F) /\ ~(tw >= F) /\ ~(tp >= F) OBVIOUS
  <1>3 DuePos(spf, F, tw - slack) = (spf * (tw - slack)) \div F BY <1>2a DEF DuePos
  <1>4 DuePos(spf, F, tw) = (spf * tw) \div F BY <1>2a DEF DuePos
  <1>4a DuePos(spf, F, tp) = (spf * tp) \div F BY <1>2a DEF DuePos
  <1>4b spf * tp \in Nat OBVIOUS
  <1>5 spf * tw <= spf * (tw + slack) BY <1>0, MulMono
  <1>6 spf * tw \in Nat /\ spf * (tw + slack) \in Nat /\ spf * (tw - slack) \in Nat BY <1>0
  <1>7 (spf * tw) \div F <= (spf * (tw + slack)) \div F BY <1>5, <1>6, DivMono
  <1>8a (spf * tp) \div F \in Int BY <1>4b, DivInt
  <1>8 DuePos(spf, F, tp) \in Int /\ (spf * (tw - slack)) \div F \in Int /\ (spf * (tw + slack)) \div F \in Int /\ (spf * tw) \div F \in Int BY <1>6, <1>4a, <1>8a
  <1> QED BY <1>1, <1>2, <1>3, <1>4, <1>7, <1>8 DEF EdgeOk
=============================================================================
