------------------------------- MODULE MC_Tape -------------------------------
(* Scaled exhaustive model for C11 / C12: the implementation-shaped player is  *)
(* driven by every partition of time into steps and every interleaving of a    *)
(* bounded number of play / stop / rewind commands; the statement-shaped       *)
(* observer judges the EAR signal in playing time.                             *)
EXTENDS Tape

CONSTANTS StepSet, MaxCmds, GuardStop, RewindResets, TapeSel, AllowRewind
VARIABLES p, ob, since, armed, junk, cmds, autoStopped, frozenBad

vars == <<p, ob, since, armed, junk, cmds, autoStopped, frozenBad>>

\* scaled constants: classes stay disjoint under the tolerance 2*max(step)-1 = 3
K == [pilot |-> 12, hdrPulses |-> 4, dataPulses |-> 3, sync1 |-> 4, sync2 |-> 8, bit0 |-> 16, bit1 |-> 20,
      pauseLen |-> 30, pauseMin |-> 30, pauseMax |-> 33, tol |-> 3, bits |-> 2, slack |-> 0]
Tapes == << << <<0, 1>>, <<3, 2>> >>,      \* header-type block then data block
            << <<2, 1, 3>> >>,
            << <<0, 3>>, <<0, 0>>, <<1, 2>> >> >>
TheTape == Tapes[TapeSel]

Init == p = PInit /\ ob = ObInit /\ since = 0 /\ armed = FALSE /\ junk = 0 /\ cmds = 0
        /\ autoStopped = FALSE /\ frozenBad = FALSE

Fresh == /\ ob' = ObInit /\ since' = 0 /\ armed' = FALSE /\ junk' = 0

\* process_clocks(c) - called by the machine whether the deck plays or not
Adv(c) ==
    LET q == PAdvance(K, TheTape, p, c, RewindResets)
        wasPlaying == p.st.k # "stop"
        edge == q.bit # p.bit
        d == since + c
    IN /\ p' = q
       /\ cmds' = cmds
       /\ autoStopped' = (autoStopped \/ (wasPlaying /\ q.st.k = "stop"))
       /\ frozenBad' = (frozenBad \/ (~wasPlaying /\ (edge \/ q.pos # p.pos)))
       /\ IF ~wasPlaying THEN UNCHANGED <<ob, since, armed, junk>>
          ELSE IF ~edge THEN since' = d /\ UNCHANGED <<ob, armed, junk>>
          ELSE /\ since' = 0
               /\ IF armed THEN ob' = Feed(K, TheTape, ob, d) /\ UNCHANGED <<armed, junk>>
                  \* after a (re)start the signal is judged from the first clean pilot pulse on; at most
                  \* two stray edges (level reset, first rise) may precede it
                  ELSE IF In(K, d, K.pilot) THEN armed' = TRUE /\ ob' = [ob EXCEPT !.cnt = 1] /\ junk' = junk
                  ELSE armed' = FALSE /\ junk' = junk + 1
                       /\ ob' = IF junk >= 2 THEN Fail(ob, "junk after (re)start") ELSE ob

Play ==
    /\ cmds < MaxCmds /\ cmds' = cmds + 1
    /\ p' = PPlay(p)
    /\ frozenBad' = frozenBad
    /\ IF p.st.k = "stop" /\ autoStopped THEN Fresh /\ autoStopped' = FALSE
       ELSE UNCHANGED <<ob, since, armed, junk, autoStopped>>
Stop ==
    /\ cmds < MaxCmds /\ cmds' = cmds + 1
    /\ p' = PStop(p, GuardStop)
    /\ UNCHANGED <<ob, since, armed, junk, autoStopped, frozenBad>>
Rewind ==
    /\ AllowRewind
    /\ cmds < MaxCmds /\ cmds' = cmds + 1
    /\ p' = PRewind(p, RewindResets)
    /\ Fresh /\ autoStopped' = FALSE /\ frozenBad' = frozenBad

Next == (\E c \in StepSet : Adv(c)) \/ Play \/ Stop \/ Rewind
Spec == Init /\ [][Next]_vars

\* ---- properties --------------------------------------------------------------------------
\* C11: every pulse of the playing tape is the one the standard waveform prescribes
WaveformOk == ob.bad = ""
\* C12: "the EAR level is frozen and no tape is consumed while stopped"
Frozen == ~frozenBad
\* C12: running off the end has decoded every block exactly once, in order
WholeTape == autoStopped => (ob.blk = Len(TheTape) /\ ob.stage \in {"pause", "end"} /\ ob.decoded = Len(TheTape))
=============================================================================
