SPECIFICATION Spec
CONSTANTS
  ROM <- RomA
  Depth = 22
INVARIANTS IntOnlyWhenAllowed NmiNotInsidePrefix AckFlipFlops AckTarget AckTime HaltedStays EntersHalt RetnCopies ShadowMatches
CHECK_DEADLOCK FALSE
