----------------------------- MODULE BorderTrace -----------------------------
(* C09 trace validation: per completed frame, the ULA port writes of that frame *)
(* (start time of the OUT instruction) and the border buffer, row by row as     *)
(* runs of equal colour. Judged with the statement's numbers: beam time of a    *)
(* pixel, and 16 pixels (8 T-states) of tolerance around the I/O cycle of the   *)
(* write, which occupies T-states t0+7 .. t0+12 of OUT (C),A.                   *)
EXTENDS Border, Json, IOUtils

Rec == ndJsonDeserialize(IOEnv.TRACE)

VARIABLES l, m, start, lastOut, bad
tvars == <<l, m, start, lastOut, bad>>
TraceInit == l = 1 /\ m = 48 /\ start = -1 /\ lastOut = -1 /\ bad = 0

Report(kind, info) == PrintT(<<"MISMATCH", l, kind, info>>) /\ bad' = bad + 1

\* the write of an OUT (C),A started at t0 takes effect somewhere in its I/O cycle: t0+7 .. t0+12;
\* expressed as centre t0+9 (rounded) with tolerance 8 + 3
Tol == 11
RECURSIVE PixelOfRun(_, _)
\* colour of pixel X (0-based) in a row given as runs <<colour, count>>
PixelOfRun(runs, X) == IF X < runs[1][2] THEN runs[1][1] ELSE PixelOfRun(Tail(runs), X - runs[1][2])

BFrame(e) ==
    LET G == Real(m)
        ws == [i \in DOMAIN e.writes |-> [t |-> e.writes[i][1] + 9, c |-> e.writes[i][2] % 8]]
        s0 == IF start = -1 THEN e.startcolor ELSE start
        final == IF ws = <<>> THEN s0 ELSE ws[Len(ws)].c
        InCanvas(X, Y) == X >= 32 /\ X < 288 /\ Y >= 24 /\ Y < 216
        \* rows whose time span is touched by no write's uncertainty window must be one colour
        RowSpanFree(Y) == \A i \in DOMAIN ws : ws[i].t + Tol < BeamT(G, 0, Y) \/ ws[i].t - Tol > BeamT(G, 319, Y)
        RowOk(Y) ==
            LET runs == e.rows[Y + 1] IN
            IF RowSpanFree(Y)
            THEN Len(runs) = 1 /\ runs[1][1] \in Allowed(G, ws, s0, Tol, BeamT(G, 0, Y))
            ELSE \A X \in 0..319 : InCanvas(X, Y) \/ PixelOfRun(runs, X) \in Allowed(G, ws, s0, Tol, BeamT(G, X, Y))
        badRows == {Y \in 0..239 : ~RowOk(Y)}
        colorOk == e.reported = final
    IN /\ start' = final
       /\ IF badRows = {} /\ colorOk THEN bad' = bad
          ELSE Report("border", [rows |-> badRows, writes |-> e.writes, start |-> s0, reported |-> e.reported, want |-> final,
                                 sample |-> IF badRows = {} THEN <<>> ELSE e.rows[(CHOOSE y \in badRows : TRUE) + 1]])

\* a frame during which a snapshot was loaded (after the frame's writes): the picture of that frame is not judged
\* (the statement gives the snapshot's border no beam position); the reported colour is the snapshot's, and the next
\* frame starts from it
MidLoad(e) ==
    /\ start' = e.midload
    /\ IF e.reported = e.midload THEN bad' = bad
       ELSE Report("border", [rows |-> {}, writes |-> e.writes, start |-> start, reported |-> e.reported, want |-> e.midload, sample |-> <<>>])

Step(e) ==
    CASE e.ev = "reset" -> m' = e.m /\ start' = -1 /\ lastOut' = -1 /\ bad' = bad
      [] e.ev = "bframe" /\ e.midload >= 0 -> MidLoad(e) /\ UNCHANGED <<m, lastOut>>
      [] e.ev = "bframe" /\ e.midload < 0 -> BFrame(e) /\ UNCHANGED <<m, lastOut>>
      \* a frame whose picture the host did not look at (the first of two frames emulated by one call): its writes decide
      \* the colour the next frame starts with
      [] e.ev = "bskip" ->
            /\ start' = IF e.writes = <<>> THEN start ELSE e.writes[Len(e.writes)][2] % 8
            /\ UNCHANGED <<m, lastOut, bad>>
      [] e.ev = "szxreport" ->
            /\ IF e.at_once = e.border /\ e.later = e.border /\ {e.painted[i] : i \in DOMAIN e.painted} = {e.border} THEN bad' = bad
               ELSE Report("border", [rows |-> {}, writes |-> <<>>, start |-> e.fe, reported |-> <<e.at_once, e.later>>, want |-> e.border, sample |-> e.painted])
            /\ UNCHANGED <<m, start, lastOut>>
      \* a loaded snapshot sets the border: "or the border stored in the last loaded snapshot"
      [] e.ev = "snapshot" -> start' = e.border /\ UNCHANGED <<m, lastOut, bad>>

TraceNext == l <= Len(Rec) /\ Step(Rec[l]) /\ l' = l + 1
TraceSpec == TraceInit /\ [][TraceNext]_tvars
TraceAccepted ==
    LET d == TLCGet("stats").diameter IN
    IF d - 1 = Len(Rec) THEN TRUE ELSE Print(<<"TRACE-NOT-CONSUMED", d - 1, Len(Rec)>>, FALSE)
Summary == (l = Len(Rec) + 1) => PrintT(<<"SUMMARY", Len(Rec), bad>>)
=============================================================================
