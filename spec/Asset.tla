--------------------------------- MODULE Asset ---------------------------------
(* The byte-stream contract behind every file the emulator reads (host/io.rs:     *)
(* LoadableAsset + SeekableAsset; BufferCursor, rustzx-utils FileAsset, GzipAsset, *)
(* DynamicAsset). C16 quantifies over "which asset implementation delivers a file  *)
(* (in-memory, real file, gzip-wrapped, or one that returns short reads)": what    *)
(* all of them must agree on is this contract, and what the loaders may rely on is *)
(* nothing more than it.                                                           *)
(*                                                                                 *)
(* State: data (the file's bytes, fixed) and pos (0-based, may lie beyond the end  *)
(* after a seek).                                                                  *)
EXTENDS Integers, Sequences

Min(a, b) == IF a < b THEN a ELSE b
Left(s) == IF s.pos >= Len(s.data) THEN 0 ELSE Len(s.data) - s.pos

\* read(buf) with Len(buf) = n. Result: [kind |-> "ok", bytes |-> <<...>>] or [kind |-> "err"].
\* - bytes are the next bytes of the file, at least one and at most n of them when n > 0 and something is left
\*   (a short read is allowed; the in-memory, file and gzip assets always deliver Min(n, left));
\* - at the end of the file an asset reports Ok(0) (std::io style) or Err (BufferCursor): both are in use;
\* - the position moves by the number of bytes delivered.
ReadAllowed(s, n, res) ==
    IF res.kind = "err" THEN Left(s) = 0
    ELSE /\ Len(res.bytes) <= Min(n, Left(s))
         /\ (n > 0 /\ Left(s) > 0) => Len(res.bytes) >= 1
         /\ res.bytes = SubSeq(s.data, s.pos + 1, s.pos + Len(res.bytes))
ReadNext(s, res) == IF res.kind = "err" THEN s ELSE [s EXCEPT !.pos = @ + Len(res.bytes)]
\* the assets of the repository are not lazy: they deliver everything that is asked for and there
FullRead(s, n, res) == res.kind = "ok" => Len(res.bytes) = Min(n, Left(s))

\* seek(Start p | End o | Current o): the new position, reported back; a position before the start is an error and
\* leaves the position alone; positions beyond the end are legal (the next read is at the end of the file)
Target(s, whence, off) ==
    CASE whence = "start" -> off [] whence = "end" -> Len(s.data) + off [] OTHER -> s.pos + off
SeekAllowed(s, whence, off, res) ==
    IF Target(s, whence, off) < 0 THEN res.kind = "err" ELSE res.kind = "ok" /\ res.pos = Target(s, whence, off)
SeekNext(s, whence, off, res) == IF res.kind = "err" THEN s ELSE [s EXCEPT !.pos = res.pos]

\* read_exact(buf), Len(buf) = n: all n bytes or an error; after an error the position is somewhere between where
\* it was and the end of the file (the bytes that were there have been consumed)
ReadExactAllowed(s, n, res) ==
    IF res.kind = "ok" THEN Left(s) >= n /\ res.bytes = SubSeq(s.data, s.pos + 1, s.pos + n)
    ELSE Left(s) < n
ReadExactNextSet(s, n, res) ==
    IF res.kind = "ok" THEN {[s EXCEPT !.pos = @ + n]}
    ELSE {[s EXCEPT !.pos = p] : p \in s.pos..(IF s.pos > Len(s.data) THEN s.pos ELSE Len(s.data))}

\* ---- implementation-shaped: the default read_exact loop of the LoadableAsset trait over any asset that
\* honours ReadAllowed (short reads, Ok(0) or Err at the end) --------------------------------------------
\* loop state: [s, want (bytes still to fill), got (sequence filled so far), out ("run" | "ok" | "err")]
LoopInit(s, n) == [s |-> s, want |-> n, got |-> <<>>, out |-> IF n = 0 THEN "ok" ELSE "run"]
LoopStep(l, res) ==      \* res: what the asset's read(buf[..want]) returned
    IF res.kind = "err" THEN [l EXCEPT !.out = "err"]
    ELSE IF Len(res.bytes) = 0 THEN [l EXCEPT !.out = "err"]          \* Ok(0): break, buffer not full -> UnexpectedEof
    ELSE LET w == l.want - Len(res.bytes) IN
         [s |-> ReadNext(l.s, res), want |-> w, got |-> l.got \o res.bytes, out |-> IF w = 0 THEN "ok" ELSE "run"]
=============================================================================
