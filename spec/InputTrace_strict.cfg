SPECIFICATION TraceSpec
CONSTANT Deviations = {}
INVARIANT Summary
POSTCONDITION TraceAccepted
CHECK_DEADLOCK FALSE
