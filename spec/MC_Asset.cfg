SPECIFICATION Spec
CONSTANTS MaxLen = 4
          MaxN = 5
INVARIANT Contract
PROPERTY Progress
PROPERTY Terminates
CHECK_DEADLOCK FALSE
