------------------------------- MODULE GenZ80MC -------------------------------
(* spec -> impl for C02: TLC enumerates every schedule of INT / NMI levels and bus   *)
(* bytes of a given length on the ROMs of MC_Z80MC and prints, for each behaviour of *)
(* the specification CPU, the schedule together with the state it must end in. The   *)
(* harness replays each schedule on the real Z80 (same mirrored ROM) and the final   *)
(* states are compared; every call is also validated by Z80Trace.                    *)
EXTENDS MC_Z80MC, Json, IOUtils

VARIABLE hist
gvars == <<s, g, n, hist>>
GInit == Init /\ hist = <<>>
GNext ==
    /\ n < Depth
    /\ \E int \in BOOLEAN, nmi \in BOOLEAN, bb \in {0, 255} :
       /\ (bb = 0 => (int /\ s.im = 2))
       \* the specification is deterministic except for NMI right after EI/DI: the branch that postpones it is
       \* the one the statement certainly allows on every implementation, so schedules with that combination are skipped
       /\ ~(nmi /\ s.ei = 1)
       /\ \E o \in Outcomes(s, Env(int, nmi, bb)) :
          /\ s' = o.s
          /\ g' = g
          /\ hist' = Append(hist, <<IF int THEN 1 ELSE 0, IF nmi THEN 1 ELSE 0, bb>>)
    /\ n' = n + 1
GSpec == GInit /\ [][GNext]_gvars
Emit == (n = Depth) => PrintT(<<"REPLAY", ROM, hist, [pc |-> s.pc, sp |-> s.sp, iff1 |-> s.iff1, iff2 |-> s.iff2, im |-> s.im,
                                               halted |-> s.halted, r |-> s.r, a |-> s.a, f |-> s.f, ei |-> s.ei, pfx |-> s.pfx]>>)
=============================================================================
