------------------------------ MODULE Paging ------------------------------
(* C06. Memory map of the 48K / 128K Spectrum and the 0x7FFD paging latch.   *)
(*                                                                           *)
(* Two descriptions live side by side:                                       *)
(*  - statement-shaped: `acc` = the last *accepted* paging write and `lk` =  *)
(*    "a value with bit 5 set has been accepted"; the map is a pure function *)
(*    of them (StmtMap) and RAM is indexed by bank;                          *)
(*  - implementation-shaped: four window descriptors `win`, a `pagingOn`     *)
(*    flag tested first, the latch copy `p7ffd` - one action per call of the *)
(*    controller (OutPort = write_io's paging arm, MemWrite, MemRead).       *)
(* TLC checks that the second refines the first (MC_Paging), and the trace   *)
(* spec (PagingTrace) validates recorded behaviours of the real machine      *)
(* against the statement-shaped one.                                         *)
EXTENDS Bits, TLC

CONSTANTS PAGE        \* bytes per 16K page (16384 for traces, tiny for the exhaustive model)

\* window descriptors: <<"rom", n>> or <<"ram", n>>
Rom(n) == <<"rom", n>>
Ram(n) == <<"ram", n>>

\* ---- statement-shaped ----------------------------------------------------
\* "0x0000-0x3FFF reads the ROM selected by bit 4 of the last accepted paging write,
\*  0x4000-0x7FFF is bank 5, 0x8000-0xBFFF bank 2, 0xC000-0xFFFF the bank selected by bits 0-2"
StmtMap(m, acc, w) ==
    CASE w = 0 -> Rom(IF m = 128 THEN Bit(acc, 4) ELSE 0)
      [] w = 1 -> Ram(5)
      [] w = 2 -> Ram(2)
      [] w = 3 -> Ram(IF m = 128 THEN acc % 8 ELSE 0)

\* "A15=0 and A1=0 the 128K paging latch (128K only)" - only ports selecting this device alone
\* are used by the drivers: odd (not ULA), A15=0, A1=0.
SelectsPagingOnly(port) == Bit(port, 15) = 0 /\ Bit(port, 1) = 0 /\ Bit(port, 0) = 1
SelectsNoPaging(port) == Bit(port, 15) = 1 \/ Bit(port, 1) = 1

\* accepted write: 128K, not locked
StmtOut(m, acc, lk, v) ==
    IF m = 128 /\ ~lk THEN [acc |-> v, lk |-> (Bit(v, 5) = 1)]
    ELSE [acc |-> acc, lk |-> lk]

\* ---- implementation-shaped -----------------------------------------------
ImplInit(m) ==
    [ win |-> IF m = 128 THEN <<Rom(0), Ram(5), Ram(2), Ram(0)>>
                         ELSE <<Rom(0), Ram(5), Ram(2), Ram(0)>>,   \* bank names of the 48K are ours
      pagingOn |-> (m = 128),
      p7ffd |-> 0,
      screenBank |-> 5 ]

ImplWrite7ffd(s, v) ==
    IF ~s.pagingOn THEN s
    ELSE [ win |-> <<Rom(Bit(v, 4)), s.win[2], s.win[3], Ram(v % 8)>>,
           pagingOn |-> (Bit(v, 5) = 0),
           p7ffd |-> v,
           screenBank |-> IF Bit(v, 3) = 0 THEN 5 ELSE 7 ]

\* write_io: the arm that reaches write_7ffd
ImplOut(m, s, port, v) ==
    IF Bit(port, 0) = 1 /\ Bit(port, 15) = 0 /\ Bit(port, 1) = 0 /\ m = 128
    THEN ImplWrite7ffd(s, v) ELSE s
=============================================================================
