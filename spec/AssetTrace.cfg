SPECIFICATION TraceSpec
INVARIANT Summary
POSTCONDITION TraceAccepted
CHECK_DEADLOCK FALSE
