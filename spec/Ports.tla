-------------------------------- MODULE Ports --------------------------------
(* C07: which device a 16-bit port address reaches under the Spectrum's        *)
(* partial decoding, and the floating bus.                                     *)
(* Statement-shaped: the set of devices a port selects (from the masks of the  *)
(* property text). Only ports selecting exactly one device (or none, for       *)
(* reads) are judged. Implementation-shaped: the priority chain of the         *)
(* controller's read_io / write_io; MC_Ports checks that on every singleton    *)
(* port the chain picks that device, for all 65536 ports and configurations.   *)
EXTENDS Input, Ula, Screen

\* cfg = [m |-> 48|128, kempston, mouse : BOOLEAN, ext |-> set of <<mask, value>> claims]
ExtClaims(cfg, p) == \E c \in cfg.ext : (p & c[1]) = c[2]

\* "even addresses the ULA"; "A15=0 and A1=0 the 128K paging latch (128K only)";
\* "A15=A14=1 and A1=0 AY register select and read-back"; "A15=1,A14=0,A1=0 AY data write";
\* "A7-A5=0 the Kempston joystick"; "xxFBDF/FFDF/FADF-style addresses the Kempston mouse"
SelUla(p) == Bit(p, 0) = 0
SelPaging(cfg, p) == cfg.m = 128 /\ Bit(p, 15) = 0 /\ Bit(p, 1) = 0
SelAyReg(p) == Bit(p, 15) = 1 /\ Bit(p, 14) = 1 /\ Bit(p, 1) = 0
SelAyData(p) == Bit(p, 15) = 1 /\ Bit(p, 14) = 0 /\ Bit(p, 1) = 0
SelKempston(cfg, p) == cfg.kempston /\ (p % 256) \div 32 = 0
SelMouse(cfg, p) == cfg.mouse /\ Bit(p, 0) = 1 /\ Bit(p, 5) = 0

ReadDevices(cfg, p) ==
    IF ExtClaims(cfg, p) THEN {"ext"}        \* "A host I/O extender receives exactly the ports it claims"
    ELSE (IF SelUla(p) THEN {"ula"} ELSE {}) \cup (IF SelAyReg(p) THEN {"ay"} ELSE {})
         \cup (IF SelKempston(cfg, p) THEN {"kempston"} ELSE {}) \cup (IF SelMouse(cfg, p) THEN {"mouse"} ELSE {})
WriteDevices(cfg, p) ==
    IF ExtClaims(cfg, p) THEN {"ext"}
    ELSE (IF SelUla(p) THEN {"ula"} ELSE {}) \cup (IF SelPaging(cfg, p) THEN {"paging"} ELSE {})
         \cup (IF SelAyReg(p) THEN {"aysel"} ELSE {}) \cup (IF SelAyData(p) THEN {"aydata"} ELSE {})

\* which mouse register an address of the mouse selects
MouseReg(p) == IF Bit(p, 8) = 0 THEN "buttons" ELSE IF Bit(p, 10) = 0 THEN "x" ELSE "y"

\* ---- implementation-shaped: the if / else-if chains ------------------------------------------
ImplRead(cfg, p) ==
    IF ExtClaims(cfg, p) THEN "ext"
    ELSE IF (p & 1) = 0 THEN "ula"
    ELSE IF cfg.mouse /\ (p & 289) = 1 THEN "mouse"          \* 0x0121 == 0x0001
    ELSE IF cfg.mouse /\ (p & 1313) = 257 THEN "mouse"       \* 0x0521 == 0x0101
    ELSE IF cfg.mouse /\ (p & 1313) = 1281 THEN "mouse"      \* 0x0521 == 0x0501
    ELSE IF (p & 49154) = 49152 THEN "ay"                     \* 0xC002 == 0xC000
    ELSE IF cfg.kempston /\ (p & 224) = 0 THEN "kempston"
    ELSE "float"
ImplWrite(cfg, p) ==
    IF ExtClaims(cfg, p) THEN "ext"
    ELSE IF (p & 49154) = 49152 THEN "aysel"
    ELSE IF (p & 49154) = 32768 THEN "aydata"
    ELSE IF (p & 1) = 0 THEN "ula"
    ELSE IF (p & 32770) = 0 /\ cfg.m = 128 THEN "paging"
    ELSE "none"

\* ---- floating bus ---------------------------------------------------------------------------
\* "0xFF whenever the ULA is not fetching picture data, otherwise a byte of the display or attribute
\*  memory being fetched". The ULA fetches, in each 8-T group of the 128-T part of a picture line,
\* the bitmap and attribute bytes of two character columns. The exact T-state inside the IN
\* instruction at which the bus is sampled is not part of the statement, so for a read instruction
\* occupying [t0, t1] every byte fetched in a group that overlaps [t0 - 8, t1 + 8] is allowed.
FirstFetch(m) == T0(m) + 1            \* first picture pixel at 14336 / 14362
FetchGroups(m, t0, t1) ==
    {<<y, g>> \in (0..191) \X (0..15) :
        LET start == FirstFetch(m) + y * Line(m) + g * 8 IN start + 8 > t0 - 8 /\ start <= t1 + 8}
FloatAllowed(m, t0, t1, scr) ==       \* scr: sequence of 6912 bytes of the visible screen bank
    {255} \cup UNION {{scr[BitmapOff(yg[1], 2 * yg[2]) + 1], scr[AttrOff(yg[1], 2 * yg[2]) + 1],
                       scr[BitmapOff(yg[1], 2 * yg[2] + 1) + 1], scr[AttrOff(yg[1], 2 * yg[2] + 1) + 1]}
                      : yg \in FetchGroups(m, t0, t1)}
=============================================================================
