SPECIFICATION Spec
CONSTANT EofStops = FALSE
INVARIANTS WalkTerminates ScanTerminates Outcome
CHECK_DEADLOCK FALSE
