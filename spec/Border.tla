-------------------------------- MODULE Border --------------------------------
(* C09: border pixels and the beam.                                             *)
(* Geometry record G: [fp |-> T of the first picture pixel, line |-> T per line, *)
(*   w, h |-> size of the border buffer in pixels, cx, cy |-> position of the   *)
(*   picture's first pixel in it, frame |-> T per frame]                        *)
(* Statement-shaped: the beam time of a border pixel and the set of colours a   *)
(* pixel may show given the ULA writes of the frame (16-pixel tolerance).       *)
(* Implementation-shaped: the painter (beam cursor, changed / blocked flags).   *)
EXTENDS Bits, Sequences, TLC

Real(m) == [fp |-> IF m = 48 THEN 14336 ELSE 14362, line |-> IF m = 48 THEN 224 ELSE 228,
            w |-> 320, h |-> 240, cx |-> 32, cy |-> 24, frame |-> IF m = 48 THEN 69888 ELSE 70908]

\* "two pixels per T-state, 224/228 T-states per line, first picture pixel at T 14336/14362"
BeamT(G, X, Y) == G.fp + (Y - G.cy) * G.line - (G.cx \div 2) + (X \div 2)

\* writes: sequence of [t |-> time the port write became effective (in-frame), c |-> colour];
\* uncertainty of +-tol T-states around it ("to within 16 pixels of beam position" = 8 T)
\* start: colour showing when the frame began.
Allowed(G, writes, start, tol, T) ==
    LET done == {i \in DOMAIN writes : writes[i].t + tol < T}          \* certainly before the beam
        maybe == {i \in DOMAIN writes : writes[i].t - tol <= T /\ T <= writes[i].t + tol}
        last == IF done = {} THEN start ELSE writes[CHOOSE i \in done : \A j \in done : j <= i].c
    IN {last} \cup {writes[i].c : i \in maybe}

\* ---- implementation-shaped painter --------------------------------------------------------
\* p = [buf (function pixel index -> colour), last ([line, pixel, color]), changed, block]
PInit(G, c0) == [buf |-> [i \in 0..(G.w * G.h - 1) |-> 7], last |-> [line |-> 0, pixel |-> 0, color |-> 7],
                 changed |-> TRUE, block |-> FALSE]

\* next_border_pixel: position reached by the beam at `clocks`, and whether the frame's visible part is over
NextPixel(G, shift, clocks) ==
    LET origin == G.fp - G.cy * G.line - (G.cx \div 2) + shift IN
    IF clocks < origin THEN [line |-> 0, pixel |-> 0, endf |-> FALSE]
    ELSE LET c == clocks - origin
             ln0 == c \div G.line
             px0 == ((c % G.line) + 1) * 2
             over == px0 - 2 >= G.w
             ln == IF over THEN ln0 + 1 ELSE ln0
             px == IF over THEN 0 ELSE px0
         IN IF ln >= G.h THEN [line |-> 0, pixel |-> 0, endf |-> TRUE] ELSE [line |-> ln, pixel |-> px, endf |-> FALSE]

FillTo(G, p, line, pixel) ==
    LET from == p.last.line * G.w + p.last.pixel
        to == line * G.w + pixel
    IN [p EXCEPT !.buf = [i \in DOMAIN p.buf |-> IF i >= from /\ i < to THEN p.last.color ELSE p.buf[i]]]

SetBorder(G, shift, p, clocks, color) ==
    LET np == NextPixel(G, shift, clocks)
        p1 == [p EXCEPT !.changed = TRUE]
        p2 == IF p1.block THEN p1
              ELSE LET q == IF np.endf THEN [FillTo(G, p1, G.h - 1, G.w) EXCEPT !.block = TRUE] ELSE p1
                   IN FillTo(G, q, np.line, np.pixel)
    IN [p2 EXCEPT !.last = [line |-> np.line, pixel |-> np.pixel, color |-> color]]

NewFrame(G, p) ==
    LET p1 == IF ~p.changed THEN [p EXCEPT !.last.line = 0, !.last.pixel = 0] ELSE p
        p2 == IF ~p1.block THEN FillTo(G, p1, G.h - 1, G.w) ELSE p1
    IN [p2 EXCEPT !.last.line = 0, !.last.pixel = 0, !.changed = FALSE, !.block = FALSE]
=============================================================================
