------------------------------- MODULE MC_Vtx -------------------------------
(* Exhaustive: every sequence of play() calls with buffer lengths 0..MaxLen,      *)
(* mono and stereo, on small tracks; the concatenated events are always a prefix  *)
(* of the canonical log, and once the end is reported the whole log was produced. *)
EXTENDS Vtx

CONSTANTS Spf, MaxLen, Stereo
\* two frames with R13 = 255 in the second; one-hot register values keep frames distinguishable
F(a, r13) == [r \in 1..14 |-> IF r = 14 THEN r13 ELSE a + r]
Track == <<F(10, 3), F(40, 255), F(70, 0)>>

VARIABLES p, pos, ok, ended
vars == <<p, pos, ok, ended>>
Log == Canon(Track, Spf)

Init == p = [frame |-> 0, fs |-> 0] /\ pos = 0 /\ ok = TRUE /\ ended = FALSE
Call(len) ==
    LET r == Play(Track, Spf, p, len, Stereo)
        n == Len(r.ev) IN
    /\ p' = r.p
    /\ ok' = (ok /\ pos + n <= Len(Log) /\ SubSeq(Log, pos + 1, pos + n) = r.ev
                 /\ r.ret = (IF Stereo THEN 2 ELSE 1) * Len(SelectSeq(r.ev, LAMBDA e : e[1] = "s")))
    /\ pos' = pos + n
    /\ ended' = (ended \/ r.ended)
Next == ~ended /\ \E len \in 0..MaxLen : Call(len)
Spec == Init /\ [][Next]_vars

PrefixOfCanon == ok
\* the end is reported exactly when everything has been produced
EndMeansAll == ended => pos = Len(Log)
NoEarlyStall == (pos = Len(Log) /\ Spf > 0) => (p.frame = Len(Track) /\ p.fs = 0)
=============================================================================
