------------------------------ MODULE MC_Border ------------------------------
(* Scaled exhaustive model for C09: a 6 x 4 pixel border buffer, 5 T per line   *)
(* (3 T visible + 2 T retrace), 2 frames, up to MaxW ULA writes per frame at    *)
(* any T (including retrace and the part of the frame after the last visible    *)
(* line); at each frame end every pixel of the painter's buffer must be a       *)
(* colour the statement allows for its beam time.                               *)
EXTENDS Border

CONSTANTS MaxW1, MaxW2, Frames
\* picture "first pixel" at buffer position (2,1); first visible line starts at T = 10
G == [fp |-> 16, line |-> 5, w |-> 6, h |-> 4, cx |-> 2, cy |-> 1, frame |-> 40]
Shift == 1        \* the implementation's beam shift (clocks_ula_beam_shift)
Tol == 2          \* scaled tolerance (>= shift + one T-state of rounding)

VARIABLES p, t, writes, start, nframes, ok
vars == <<p, t, writes, start, nframes, ok>>

Init == p = PInit(G, 7) /\ t = 0 /\ writes = <<>> /\ start = 7 /\ nframes = 0 /\ ok = TRUE

Colours == {1, 2}
Write(c) ==
    /\ t < G.frame /\ Len(writes) < (IF nframes = 0 THEN MaxW1 ELSE MaxW2)
    /\ p' = SetBorder(G, Shift, p, t, c)
    /\ writes' = Append(writes, [t |-> t, c |-> c])
    /\ UNCHANGED <<t, start, nframes, ok>>
Tick == t < G.frame /\ t' = t + 1 /\ UNCHANGED <<p, writes, start, nframes, ok>>

FrameOk(q) ==
    \A Y \in 0..(G.h - 1), X \in 0..(G.w - 1) :
        q.buf[Y * G.w + X] \in Allowed(G, writes, start, Tol, BeamT(G, X, Y))
EndFrame ==
    /\ t = G.frame /\ nframes < Frames
    /\ LET q == NewFrame(G, p) IN
       /\ p' = q
       /\ ok' = (ok /\ FrameOk(q))
    /\ start' = IF writes = <<>> THEN start ELSE writes[Len(writes)].c
    /\ writes' = <<>> /\ t' = 0 /\ nframes' = nframes + 1

Next == Tick \/ (\E c \in Colours : Write(c)) \/ EndFrame
Spec == Init /\ [][Next]_vars
BorderOk == ok
=============================================================================
