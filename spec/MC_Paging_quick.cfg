SPECIFICATION Spec
CONSTANTS
  PAGE = 1
  Data = {0, 1}
  MCPorts = {32765, 65533, 32767}
  OutVals <- QuickVals
INVARIANTS Refines MapAgrees LatchAgrees RomFixed FixedWindows K48Fixed
PROPERTIES LockSticky Aliasing
CHECK_DEADLOCK FALSE
