------------------------------ MODULE MC_Input ------------------------------
(* Exhaustive refinement check for C17 on a reduced universe: every history of *)
(* events up to Depth; after each, the implementation-shaped matrices read the *)
(* same as the statement-shaped held-sets for every selector that matters.     *)
EXTENDS Input

CONSTANTS Depth, Devs
VARIABLES st, im, n
vars == <<st, im, n>>

\* keys CAPS(0) 2(16) 3(17) 5(19) 0(20) SPACE(35); compound ArrowLeft CapsLock Delete Break; both Sinclair sticks
Events ==
    [ev : {"key"}, k : {0, 16, 17, 19, 20, 35}, p : BOOLEAN]
    \cup [ev : {"ckey"}, k : {0, 4, 5, 6}, p : BOOLEAN]
    \cup [ev : {"sjoy"}, j : {1, 2}, d : {0, 3, 4}, p : BOOLEAN]
    \cup [ev : {"kjoy"}, b : {0, 4, 7}, p : BOOLEAN]
    \cup [ev : {"mbtn"}, b : {0, 3}, p : BOOLEAN]
    \cup [ev : {"mwheel"}, d : {1, -1}]
    \cup [ev : {"mmove"}, x : {-128, 1}, y : {-1, 127}]

Init == st = StInit /\ im = ImInit /\ n = 0
Next == n < Depth /\ \E e \in Events : st' = StEvent(st, e) /\ im' = ImEvent(im, e, Devs) /\ n' = n + 1
Spec == Init /\ [][Next]_vars

Selectors == {254, 247, 239, 127, 231, 0, 255, 118}
Refines ==
    /\ \A sel \in Selectors : ImKeyBits(im, sel) = KeyBits(st, {}, sel)
    /\ im.kemp = KempstonByte(st)
    /\ im.mbtn = MouseButtons(st) /\ im.mx = st.mx /\ im.my = st.my
\* "a release by one source never releases a key another source still holds" is part of Refines:
\* KeyBits is computed from the union of what every source holds.
=============================================================================
