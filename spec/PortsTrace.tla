----------------------------- MODULE PortsTrace -----------------------------
(* C07 trace validation: complete read / write sweeps over all 65536 port      *)
(* addresses per configuration (one table event each) and floating-bus reads   *)
(* at chosen beam positions.                                                   *)
EXTENDS Ports, Json, IOUtils, Sequences, Functions

Rec == ndJsonDeserialize(IOEnv.TRACE)

VARIABLES l, cfg, dev, scr, bad
tvars == <<l, cfg, dev, scr, bad>>
NoCfg == [m |-> 48, kempston |-> FALSE, mouse |-> FALSE, ext |-> {}]
TraceInit == l = 1 /\ cfg = NoCfg /\ dev = <<>> /\ scr = <<>> /\ bad = 0

Report(kind, info) == PrintT(<<"MISMATCH", l, kind, info>>) /\ bad' = bad + 1
AllPorts == [i \in 1..65536 |-> i - 1]
FirstFew(q) == SubSeq(q, 1, Lesser(12, Len(q)))

\* expected value of a read that reaches exactly one device
KeyTable(st) == [sel \in 0..255 |-> KeyBits(st, {}, sel)]
ReadWant(d, p, kt) ==
    CASE d = "ula" -> kt[p \div 256] + 32 + 128 + (IF dev.ear THEN 64 ELSE 0)
      [] d = "ay" -> dev.ayval
      [] d = "kempston" -> dev.kemp
      [] d = "mouse" -> (CASE MouseReg(p) = "buttons" -> dev.mousereg[1] [] MouseReg(p) = "x" -> dev.mousereg[2]
                           [] OTHER -> dev.mousereg[3])
      [] d = "ext" -> dev.extval

RdTab(e) ==
    \E kt \in {KeyTable([StInit EXCEPT !.keys = {k : k \in Range(dev.keys)}])} :
    LET Ok(p) ==
          LET ds == ReadDevices(cfg, p)   v == e.vals[p + 1]   x == e.extreads[p + 1] IN
          /\ (x = 1) <=> ("ext" \in ds)                      \* the extender sees exactly the ports it claims
          /\ (ds = {} => v = 255)                            \* floating bus, beam outside the picture
          /\ (Cardinality(ds) = 1 => v = ReadWant(CHOOSE d \in ds : TRUE, p, kt))
    IN \E bs \in {SelectSeq(AllPorts, LAMBDA p : ~Ok(p))} :
       IF bs = <<>> THEN bad' = bad
       ELSE Report("read", [ports |-> FirstFew(bs), count |-> Len(bs),
                            got |-> [i \in DOMAIN FirstFew(bs) |-> e.vals[bs[i] + 1]],
                            devices |-> [i \in DOMAIN FirstFew(bs) |-> ReadDevices(cfg, bs[i])]])

EffectBit(d) == CASE d = "ula" -> 1 [] d = "paging" -> 2 [] d = "aysel" -> 4 [] d = "aydata" -> 8 [] d = "ext" -> 16
WrTab(e) ==
    LET Ok(p) ==
          LET ds == WriteDevices(cfg, p)   x == e.effects[p + 1] IN
          /\ (ds = {} => x = 0)
          /\ (Cardinality(ds) = 1 => x = EffectBit(CHOOSE d \in ds : TRUE))
          /\ ((x \div 16) % 2 = 1) <=> ("ext" \in ds)
    IN \E bs \in {SelectSeq(AllPorts, LAMBDA p : ~Ok(p))} :
       IF bs = <<>> THEN bad' = bad
       ELSE Report("write", [ports |-> FirstFew(bs), count |-> Len(bs),
                             got |-> [i \in DOMAIN FirstFew(bs) |-> e.effects[bs[i] + 1]],
                             devices |-> [i \in DOMAIN FirstFew(bs) |-> WriteDevices(cfg, bs[i])]])

\* a history of writes to arbitrary ports: after each, the border and the speaker/MIC level heard are those of the
\* last value that reached the ULA (bits 0-2 border, bit 3 MIC, bit 4 speaker); other ports leave them alone
RECURSIVE UlaWalk(_, _, _, _)
UlaWalk(c, ops, i, st) ==
    IF i > Len(ops) THEN <<>>
    ELSE LET o == ops[i]
             st1 == IF "ula" \in WriteDevices(c, o[1]) THEN [border |-> o[2] % 8, lvl |-> (o[2] \div 8) % 4] ELSE st
         IN IF o[3] = st1.border /\ o[4] = st1.lvl THEN UlaWalk(c, ops, i + 1, st1)
            ELSE <<[i |-> i, port |-> o[1], val |-> o[2], border |-> o[3], level |-> o[4], want |-> st1]>>
UlaWr(e) ==
    \E bs \in {UlaWalk([m |-> e.m, kempston |-> FALSE, mouse |-> FALSE, ext |-> {}], e.ops, 1, [border |-> 0, lvl |-> 0])} :
       IF bs = <<>> THEN bad' = bad ELSE Report("ulawr", bs[1])

Float(e) ==
    LET t1 == IF e.t1 < e.t0 THEN e.t1 + Frame(cfg.m) ELSE e.t1
        allowed == FloatAllowed(cfg.m, e.t0, t1, scr)
    IN IF e.val \in allowed THEN bad' = bad
       ELSE Report("float", [t0 |-> e.t0, t1 |-> t1, got |-> e.val, allowed |-> allowed])

Step(e) ==
    CASE e.ev = "cfg" ->
            /\ cfg' = [m |-> e.m, kempston |-> e.kempston, mouse |-> e.mouse, ext |-> {<<c[1], c[2]>> : c \in Range(e.ext)}]
            /\ dev' = [keys |-> e.keys, kemp |-> e.kemp, mousereg |-> e.mousereg, ayval |-> e.ayval, extval |-> e.extval, ear |-> e.ear]
            /\ UNCHANGED <<scr, bad>>
      [] e.ev = "rdtab" -> RdTab(e) /\ UNCHANGED <<cfg, dev, scr>>
      [] e.ev = "wrtab" -> WrTab(e) /\ UNCHANGED <<cfg, dev, scr>>
      [] e.ev = "ulawr" -> UlaWr(e) /\ UNCHANGED <<cfg, dev, scr>>
      [] e.ev = "fcfg" -> cfg' = [NoCfg EXCEPT !.m = e.m] /\ scr' = e.screen /\ UNCHANGED <<dev, bad>>
      [] e.ev = "float" -> Float(e) /\ UNCHANGED <<cfg, dev, scr>>

TraceNext == l <= Len(Rec) /\ Step(Rec[l]) /\ l' = l + 1
TraceSpec == TraceInit /\ [][TraceNext]_tvars
TraceAccepted ==
    LET d == TLCGet("stats").diameter IN
    IF d - 1 = Len(Rec) THEN TRUE ELSE Print(<<"TRACE-NOT-CONSUMED", d - 1, Len(Rec)>>, FALSE)
Summary == (l = Len(Rec) + 1) => PrintT(<<"SUMMARY", Len(Rec), bad>>)
=============================================================================
