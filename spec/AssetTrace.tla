------------------------------ MODULE AssetTrace ------------------------------
(* Trace validation of the repository's asset implementations (BufferCursor,     *)
(* FileAsset, GzipAsset, DynamicAsset around each) against Asset.tla: random       *)
(* sequences of read / read_exact / seek on files of 0..64 bytes. The position is  *)
(* hidden state: the spec carries the set of positions consistent with everything  *)
(* seen so far.                                                                    *)
EXTENDS Asset, Json, IOUtils, TLC, FiniteSets

Rec == ndJsonDeserialize(IOEnv.TRACE)
VARIABLES l, data, cand, impl, bad
tvars == <<l, data, cand, impl, bad>>
TraceInit == l = 1 /\ data = <<>> /\ cand = {0} /\ impl = "" /\ bad = 0

St(p) == [data |-> data, pos |-> p]
Res(e) == IF e.res.kind = "ok" /\ "bytes" \in DOMAIN e.res THEN [kind |-> "ok", bytes |-> e.res.bytes]
          ELSE IF e.res.kind = "ok" THEN [kind |-> "ok", pos |-> e.res.pos] ELSE [kind |-> "err"]
Op(e) ==
    LET r == Res(e)
        next == CASE e.op = "read" -> {ReadNext(St(p), r).pos : p \in {q \in cand : ReadAllowed(St(q), e.n, r)}}
                  [] e.op = "seek" -> {SeekNext(St(p), e.whence, e.off, r).pos : p \in {q \in cand : SeekAllowed(St(q), e.whence, e.off, r)}}
                  [] OTHER -> UNION {{s.pos : s \in ReadExactNextSet(St(p), e.n, r)} : p \in {q \in cand : ReadExactAllowed(St(q), e.n, r)}}
    IN IF e.res.kind \in {"ok", "err"} /\ next # {} THEN cand' = next /\ bad' = bad      \* (a panic is never a legal result)
       ELSE /\ PrintT(<<"MISMATCH", l, impl, [op |-> e.op, arg |-> IF e.op = "seek" THEN <<e.whence, e.off>> ELSE <<e.n>>, res |-> e.res,
                                              positions |-> cand, len |-> Len(data)]>>)
            /\ bad' = bad + 1
            \* go on from where the asset says it is, if it says so; else keep the candidates
            /\ cand' = IF e.op = "seek" /\ e.res.kind = "ok" THEN {e.res.pos} ELSE cand

Step(e) ==
    CASE e.ev = "aopen" -> data' = e.data /\ cand' = {0} /\ impl' = e.impl /\ bad' = bad
      [] e.ev = "aop" -> Op(e) /\ UNCHANGED <<data, impl>>

TraceNext == l <= Len(Rec) /\ Step(Rec[l]) /\ l' = l + 1
TraceSpec == TraceInit /\ [][TraceNext]_tvars
TraceAccepted ==
    LET d == TLCGet("stats").diameter IN
    IF d - 1 = Len(Rec) THEN TRUE ELSE Print(<<"TRACE-NOT-CONSUMED", d - 1, Len(Rec)>>, FALSE)
Summary == (l = Len(Rec) + 1) => PrintT(<<"SUMMARY", Len(Rec), bad>>)
=============================================================================
