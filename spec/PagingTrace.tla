---------------------------- MODULE PagingTrace ----------------------------
(* Validates recorded behaviours of the real emulator against the statement- *)
(* shaped memory map of Paging.tla. One event per CPU-level operation.       *)
(* A mismatch never blocks: it is printed, counted, and validation continues *)
(* from the model state (reads do not change state).                         *)
EXTENDS Paging, Json, IOUtils, TLC, Sequences

Rec == ndJsonDeserialize(IOEnv.TRACE)

VARIABLES l, m, acc, lk, ram, fill, bad
tvars == <<l, m, acc, lk, ram, fill, bad>>

\* RAM is sparse: a function from <<bank, offset>> to the last value written; unwritten = what the last loaded
\* snapshot put there (one byte value per bank; 0 before any load)
Cell(b, o) == <<b, o>>
RamRead(r, b, o) == IF Cell(b, o) \in DOMAIN r THEN r[Cell(b, o)] ELSE fill[b + 1]
NoFill == [b \in 1..8 |-> 0]

TraceInit == l = 1 /\ m = 128 /\ acc = 0 /\ lk = FALSE /\ ram = <<>> /\ fill = NoFill /\ bad = 0

Window(a) == a \div PAGE
Offset(a) == a % PAGE

Expected(e) ==
    LET pg == StmtMap(m, acc, Window(e.addr)) IN
    IF pg[1] = "rom" THEN e.rom[pg[2] + 1] ELSE RamRead(ram, pg[2], Offset(e.addr))

Step(e) ==
    CASE e.ev = "reset" ->
            /\ m' = e.m /\ acc' = 0 /\ lk' = FALSE /\ ram' = <<>> /\ fill' = NoFill /\ bad' = bad
      [] e.ev = "out" ->
            /\ Assert(SelectsPagingOnly(e.port) \/ SelectsNoPaging(e.port), <<"driver used an ambiguous port", l>>)
            /\ LET r == IF SelectsPagingOnly(e.port) THEN StmtOut(m, acc, lk, e.val)
                        ELSE [acc |-> acc, lk |-> lk]
               IN acc' = r.acc /\ lk' = r.lk
            /\ UNCHANGED <<m, ram, fill, bad>>
      \* a file the machine rejects is not applied: "for any history" the map is a function of the port writes alone
      [] e.ev = "badload" ->
            /\ IF e.accepted
               THEN PrintT(<<"MISMATCH", l, "read", [addr |-> -1, got |-> "a file of the other model / a truncated file was accepted", peek |-> 0,
                                                      want |-> "rejected", acc |-> acc, lk |-> lk, m |-> m]>>) /\ bad' = bad + 1
               ELSE bad' = bad
            /\ UNCHANGED <<m, acc, lk, ram, fill>>
      \* a well-formed snapshot of the machine's own model is a new beginning: memory is the file's, the latch is the file's
      \* (128K; the lock is the file's bit 5, whatever was locked before), and a 48K machine has no latch afterwards either
      [] e.ev = "load" ->
            /\ IF e.accepted THEN bad' = bad
               ELSE PrintT(<<"MISMATCH", l, "read", [addr |-> -1, got |-> "a well-formed snapshot was rejected", peek |-> 0,
                                                      want |-> "accepted", acc |-> acc, lk |-> lk, m |-> m]>>) /\ bad' = bad + 1
            /\ ram' = <<>> /\ fill' = e.fill
            /\ acc' = IF m = 128 THEN e.latch ELSE 0
            /\ lk' = (m = 128 /\ (e.latch \div 32) % 2 = 1)
            /\ m' = m
      [] e.ev = "wr" ->
            /\ LET pg == StmtMap(m, acc, Window(e.addr)) IN
               ram' = IF pg[1] = "ram" THEN (Cell(pg[2], Offset(e.addr)) :> e.val) @@ ram ELSE ram
            /\ UNCHANGED <<m, acc, lk, fill, bad>>
      [] e.ev = "rd" ->
            /\ LET x == Expected(e) IN
               IF x = e.val /\ e.peek = e.val THEN bad' = bad
               ELSE /\ PrintT(<<"MISMATCH", l, "read", [addr |-> e.addr, got |-> e.val, peek |-> e.peek,
                                                      want |-> x, acc |-> acc, lk |-> lk, m |-> m]>>)
                    /\ bad' = bad + 1
            /\ UNCHANGED <<m, acc, lk, ram, fill>>

TraceNext == l <= Len(Rec) /\ Step(Rec[l]) /\ l' = l + 1
TraceSpec == TraceInit /\ [][TraceNext]_tvars

\* acceptance: every line consumed (one state per line plus the initial one)
TraceAccepted ==
    LET d == TLCGet("stats").diameter IN
    IF d - 1 = Len(Rec) THEN TRUE
    ELSE Print(<<"TRACE-NOT-CONSUMED", d - 1, Len(Rec)>>, FALSE)
\* summary line for the driver
Summary == (l = Len(Rec) + 1) => PrintT(<<"SUMMARY", Len(Rec), bad>>)
=============================================================================
