SPECIFICATION Spec
CONSTANTS
  StepSet = {0, 1, 2}
  MaxCmds = 9
  GuardStop = TRUE
  RewindResets = TRUE
  AllowRewind = TRUE
  TapeSel = 3
INVARIANTS WaveformOk Frozen WholeTape
CHECK_DEADLOCK FALSE
