------------------------------ MODULE LoaderTrace ------------------------------
(* C15: outcome of every loader case executed on the real code: spec-enumerated     *)
(* malformed shapes, an asset failing at every request index, mutated and random    *)
(* byte strings. "returns Ok or Err in bounded time and memory: it never panics,    *)
(* overflows arithmetic, loops forever or requests memory out of proportion to the  *)
(* input size. After either outcome the emulator still emulates further frames      *)
(* without panicking."                                                              *)
EXTENDS Integers, Sequences, Json, IOUtils, TLC

Rec == ndJsonDeserialize(IOEnv.TRACE)
VARIABLES l, bad
tvars == <<l, bad>>
TraceInit == l = 1 /\ bad = 0

\* 8 MiB of fixed cost plus the largest expansion the wrapped formats permit (DEFLATE 1032:1, LH5 1024:1)
\* times the doubling of a growing buffer and one copy
\* - for the formats that wrap a compressed stream whose whole contents the loader needs (gzip, VTX). The other
\* loaders know how much they need (a page, a block, a screen): 4 MiB of fixed cost plus 8 bytes per byte of input
Wrapping(kind) == kind = "vtx" \/ (Len(kind) >= 4 /\ SubSeq(kind, 1, 4) = "gzip")
AllocBound(kind, size) == IF Wrapping(kind) THEN 8388608 + 3000 * size ELSE 4194304 + 8 * size

IsPanic(s) == Len(s) >= 5 /\ SubSeq(s, 1, 5) = "panic"
Case(e) ==
    LET okOutcome == e.outcome \in {"ok", "err"}
        okPost == ~IsPanic(e.post)
        okAlloc == e.alloc <= AllocBound(e.kind, e.size)
    IN IF okOutcome /\ okPost /\ okAlloc THEN bad' = bad
       ELSE /\ PrintT(<<"MISMATCH", l, IF ~okOutcome THEN e.outcome ELSE IF ~okPost THEN "postpanic" ELSE "alloc",
                       [idx |-> e.idx, kind |-> e.kind, detail |-> e.detail, post |-> e.post, alloc |-> e.alloc, size |-> e.size, what |-> e.what]>>)
            /\ bad' = bad + 1

TraceNext == l <= Len(Rec) /\ Case(Rec[l]) /\ l' = l + 1
TraceSpec == TraceInit /\ [][TraceNext]_tvars
TraceAccepted ==
    LET d == TLCGet("stats").diameter IN
    IF d - 1 = Len(Rec) THEN TRUE ELSE Print(<<"TRACE-NOT-CONSUMED", d - 1, Len(Rec)>>, FALSE)
Summary == (l = Len(Rec) + 1) => PrintT(<<"SUMMARY", Len(Rec), bad>>)
=============================================================================
