SPECIFICATION Spec
CONSTANTS
  F = 23
  Calls = 6
  MaxK = 60
INVARIANTS Deterministic NoFrameLost
CHECK_DEADLOCK FALSE
