------------------------------- MODULE MC_Ports -------------------------------
(* Constant-level exhaustive check over all 65536 ports and 16 configurations:   *)
(* wherever the statement's masks select exactly one device (or none), the       *)
(* implementation-shaped decode chain reaches exactly that device.               *)
EXTENDS Ports

Cfgs == {[m |-> mm, kempston |-> k, mouse |-> mo, ext |-> x] :
            mm \in {48, 128}, k \in BOOLEAN, mo \in BOOLEAN, x \in {{}, {<<65535, 52428>>, <<255, 59>>}}}

ReadOk(cfg, p) ==
    LET d == ReadDevices(cfg, p) IN
    /\ (Cardinality(d) = 1 => ImplRead(cfg, p) \in d)
    /\ (d = {} => ImplRead(cfg, p) = "float")
WriteOk(cfg, p) ==
    LET d == WriteDevices(cfg, p) IN
    /\ (Cardinality(d) = 1 => ImplWrite(cfg, p) \in d)
    /\ (d = {} => ImplWrite(cfg, p) = "none")

ASSUME \A cfg \in Cfgs : \A p \in 0..65535 : ReadOk(cfg, p) /\ WriteOk(cfg, p)
\* canonical addresses decode to the expected single device
ASSUME LET c == [m |-> 128, kempston |-> TRUE, mouse |-> FALSE, ext |-> {}] IN
       /\ ReadDevices(c, 65278) = {"ula"} /\ WriteDevices(c, 254) = {"ula"}
       /\ WriteDevices(c, 32765) = {"paging"} /\ WriteDevices(c, 65533) = {"aysel"} /\ ReadDevices(c, 65533) = {"ay"}
       /\ WriteDevices(c, 49149) = {"aydata"} /\ ReadDevices(c, 31) = {"kempston"}
ASSUME LET c == [m |-> 48, kempston |-> FALSE, mouse |-> TRUE, ext |-> {}] IN
       /\ ReadDevices(c, 64223) = {"mouse"} /\ MouseReg(64223) = "buttons"
       /\ ReadDevices(c, 64479) = {"mouse"} /\ MouseReg(64479) = "x"
       /\ ReadDevices(c, 65503) = {"mouse"} /\ MouseReg(65503) = "y"
       /\ WriteDevices(c, 32765) = {}
ASSUME PrintT(<<"CASES", 16 * 65536 * 2>>)
=============================================================================
