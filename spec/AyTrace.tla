------------------------------- MODULE AyTrace -------------------------------
(* C18 trace validation: experiments on the real AY core, judged by Ay.tla.       *)
EXTENDS Ay, Json, IOUtils, FiniteSets

Rec == ndJsonDeserialize(IOEnv.TRACE)
VARIABLES l, bad
tvars == <<l, bad>>
TraceInit == l = 1 /\ bad = 0
Report(kind, info) == PrintT(<<"MISMATCH", l, kind, info>>) /\ bad' = bad + 1
Judge(ok, kind, info) == IF ok THEN bad' = bad ELSE Report(kind, info)

RECURSIVE Gcd(_, _)
Gcd(a, b) == IF b = 0 THEN a ELSE Gcd(b, a % b)
Inner(runs) == IF Len(runs) <= 2 THEN <<>> ELSE SubSeq(runs, 2, Len(runs) - 1)

\* tone: the channel alternates between silence and its volume level, every half-period exactly TP ticks
Tone(e) ==
    LET tp == TonePeriod(e.r_lo, e.r_hi)
        amp == 2 * e.vol + 1
        runs == e.runs
        ok == /\ Len(runs) >= 4
              /\ \A i \in DOMAIN runs : runs[i][1] \in {0, amp}
              /\ \A i \in 1..(Len(runs) - 1) : runs[i][1] # runs[i + 1][1]
              /\ \A i \in DOMAIN Inner(runs) : Inner(runs)[i][2] = tp
              /\ runs[1][2] <= tp
              /\ e.others
    IN Judge(ok, "tone", [tp |-> tp, amp |-> amp, runs |-> SubSeq(runs, 1, Lesser(6, Len(runs))), others |-> e.others])

\* noise: changes only at multiples of 2*NP ticks, and that clock is really used (gcd of the run lengths)
Noise(e) ==
    LET np == NoisePeriod(e.r6)
        inner == Inner(e.runs)
        lens == {inner[i][2] : i \in DOMAIN inner}
        g == IF lens = {} THEN 0 ELSE LET RECURSIVE G(_) G(S) == IF S = {} THEN 0 ELSE LET x == CHOOSE y \in S : TRUE IN Gcd(x, G(S \ {x})) IN G(lens)
        ok == /\ Len(inner) >= 20
              /\ \A i \in DOMAIN e.runs : e.runs[i][1] \in {0, 31}
              /\ \A n \in lens : n % (2 * np) = 0
              /\ g = 2 * np
    IN Judge(ok, "noise", [np |-> np, gcd |-> g, runs |-> SubSeq(e.runs, 1, Lesser(8, Len(e.runs)))])

\* envelope: value n ticks after the write of R13
Env(e) ==
    LET ep == EnvPeriod(e.r11, e.r12)
        sh == e.shape % 16
        badAt == {n \in DOMAIN e.vals : e.vals[n] # EnvValue(sh, ep, n)}
    IN Judge(badAt = {}, "env", [shape |-> sh, ep |-> ep, first |-> IF badAt = {} THEN 0 ELSE CHOOSE n \in badAt : \A k \in badAt : n <= k,
                                 got |-> SubSeq(e.vals, 1, Lesser(40, Len(e.vals)))])

\* mixer: whatever the generators do, a channel's level is 0 or its amplitude; with tone and noise both
\* switched off it is always the amplitude
Mix(e) ==
    LET r == e.regs
        ok == \A c \in 0..2 :
                LET toneOff == Bit(r[8], c)   noiseOff == Bit(r[8], c + 3)   volReg == r[9 + c]
                    amps == IF Bit(volReg, 4) = 1 THEN 0..31 ELSE {2 * (volReg % 16) + 1}
                    seen == {e.seen[c + 1][i] : i \in DOMAIN e.seen[c + 1]}
                IN /\ seen \subseteq (amps \cup {0})
                   /\ (toneOff = 1 /\ noiseOff = 1) => seen \subseteq amps
                   /\ (toneOff = 1 /\ noiseOff = 1 /\ Bit(volReg, 4) = 0) => seen = amps
    IN Judge(ok, "mix", [regs |-> r, seen |-> e.seen])

\* register histories: "for any sequence of AY register writes ... arbitrary interleavings of register writes with sample
\* generation". Every tick of every channel: the level is 0 or the amplitude its registers define (fixed volume, or the
\* envelope value when bit 4 is set), and it is the amplitude whenever the mixer switches both tone and noise off.
\* The envelope position is defined by the statement from the last write of R13 as long as the period registers have not
\* been touched since; otherwise any envelope value is accepted.
\* longest stretch of equal values of channel c (0..2) in a run of ticks
LongestFlat(ticks, c) ==
    FoldLeft(LAMBDA a, t : LET v == t[c + 1] IN
                 IF v = a.cur THEN [a EXCEPT !.len = @ + 1, !.max = IF a.len + 1 > @ THEN a.len + 1 ELSE @]
                 ELSE [cur |-> v, len |-> 1, max |-> IF a.max < 1 THEN 1 ELSE a.max],
             [cur |-> -1, len |-> 0, max |-> 0], ticks).max
\* "the envelope steps with period 256*EP/f_clk": whatever its phase (period registers may have been rewritten since the
\* last R13 write), an envelope of a repeating shape (8, 10, 12, 14: no hold) never rests longer than two periods (a
\* triangle shows its extreme value twice). Judged on channels that show their amplitude (tone and noise off).
Frozen(ticks, r) ==
    LET shape == r[14] % 16   ep == EnvPeriod(r[12], r[13]) IN
    shape \in {8, 10, 12, 14} /\
    \E c \in 0..2 : Bit(r[8], c) = 1 /\ Bit(r[8], c + 3) = 1 /\ Bit(r[9 + c], 4) = 1 /\ LongestFlat(ticks, c) > 2 * ep + 1

\* "a tone-enabled channel is a square wave of frequency f_clk/(16*TP) (12-bit TP, 0 acting as 1)" - for the registers in
\* force, however they got there: on a channel with tone on, noise off and a fixed volume above 0, every stretch of
\* equal level that lies inside a run lasts exactly TP ticks (the first and the last one, cut by the run, at most TP)
TonePeriodOf(r, c) == LET p == r[2 * c + 1] + 256 * (r[2 * c + 2] % 16) IN IF p = 0 THEN 1 ELSE p
StretchesOk(ticks, c, tp) ==
    LET fin == FoldLeft(LAMBDA a, t : LET v == t[c + 1] IN
                            IF a.cur = -1 THEN [a EXCEPT !.cur = v, !.len = 1]
                            ELSE IF v = a.cur THEN [a EXCEPT !.len = @ + 1]
                            ELSE [cur |-> v, len |-> 1, first |-> FALSE,
                                  ok |-> a.ok /\ (IF a.first THEN a.len <= tp ELSE a.len = tp)],
                        [cur |-> -1, len |-> 0, first |-> TRUE, ok |-> TRUE], ticks)
    IN fin.ok /\ fin.len <= tp
ToneOff(ticks, r) ==
    \E c \in 0..2 : /\ Bit(r[8], c) = 0 /\ Bit(r[8], c + 3) = 1 /\ Bit(r[9 + c], 4) = 0 /\ r[9 + c] % 16 > 0
                    /\ ~StretchesOk(ticks, c, TonePeriodOf(r, c))

HistStep(acc, o) ==
    IF o[1] = "w" THEN
        [acc EXCEPT !.regs[o[2] + 1] = o[3], !.k = @ + 1, !.sinceW13 = @ \/ o[2] = 13,
                    !.n = IF o[2] = 13 THEN 0 ELSE IF o[2] \in {11, 12} THEN -1 ELSE @]
    ELSE
        LET ticks == o[2]
            r == acc.regs
            shape == r[14] % 16
            ep == EnvPeriod(r[12], r[13])
            Bad(i) == \E c \in 0..2 :
                LET toneOff == Bit(r[8], c)   noiseOff == Bit(r[8], c + 3)   volReg == r[9 + c]
                    lvl == ticks[i][c + 1]
                    amp == IF Bit(volReg, 4) = 1
                           THEN (IF acc.n >= 0 THEN EnvValue(shape, ep, acc.n + i) ELSE lvl)
                           ELSE 2 * (volReg % 16) + 1
                IN ~(lvl \in 0..31 /\ (lvl = amp \/ (lvl = 0 /\ ~(toneOff = 1 /\ noiseOff = 1))))
            badTicks == {i \in DOMAIN ticks : Bad(i)}
        IN [acc EXCEPT !.n = IF @ >= 0 THEN @ + Len(ticks) ELSE @, !.k = @ + 1,
                       !.bad = IF @ # <<>> THEN @
                               ELSE IF badTicks # {}
                               THEN LET i == CHOOSE x \in badTicks : \A y \in badTicks : x <= y
                                    IN <<acc.k + 1, i, ticks[i], r, acc.n>>
                               ELSE IF acc.sinceW13 /\ Frozen(ticks, r) THEN <<acc.k + 1, 0, "envelope at rest", r, acc.n>>
                               ELSE IF ToneOff(ticks, r) THEN <<acc.k + 1, 0, "tone period", r, acc.n>>
                               ELSE @]
Hist(e) ==
    LET fin == FoldLeft(HistStep, [regs |-> [k \in 1..14 |-> 0], n |-> -1, k |-> 0, bad |-> <<>>, sinceW13 |-> FALSE], e.ops)
    IN Judge(fin.bad = <<>>, "hist", [first |-> fin.bad])

Dac(e) == Judge(\A v \in 1..15 : e.amps[v + 1] > e.amps[v], "dac", [amps |-> e.amps])
\* both chip types: a slow attack ramp is a rising staircase of 32 settled amplitudes (a step may repeat the
\* previous amplitude - the AY has 16 distinct levels - but two steps always rise), fixed volume v sounds
\* exactly like envelope level 2v+1, and the fixed volumes rise strictly
EnvDac(e) ==
    LET seen == \A i \in 1..32 : e.amps[i] >= 0
        rising == \A i \in 1..31 : e.amps[i + 1] >= e.amps[i]
        rising2 == \A i \in 1..30 : e.amps[i + 2] > e.amps[i]
        same == \A v \in 0..15 : e.fixed[v + 1] - e.amps[2 * v + 2] \in -2..2
        strict == \A v \in 1..15 : e.fixed[v + 1] > e.fixed[v]
    IN Judge(seen /\ rising /\ rising2 /\ same /\ strict, "envdac",
             [chip |-> e.chip, ch |-> e.ch, seen |-> seen, rising |-> rising, rising2 |-> rising2, same |-> same, strict |-> strict, amps |-> e.amps, fixed |-> e.fixed])
Pan(e) ==
    LET cls == PanClass(e.mode, e.ch)
        ok == CASE cls = "left" -> e.l > 1000 /\ e.r = 0
                [] cls = "right" -> e.r > 1000 /\ e.l = 0
                [] OTHER -> e.l > 1000 /\ e.l = e.r
    IN Judge(ok, "pan", [mode |-> e.mode, ch |-> e.ch, class |-> cls, l |-> e.l, r |-> e.r])
\* one second of output: 2 f zero crossings, f = f_clk / (16 TP) ("every sample is finite and bounded")
Freq(e) ==
    LET want == 1773400 \div (8 * e.tp)
        ok == e.finite /\ e.maxabs_milli <= 3000 /\ e.crossings >= want - 3 /\ e.crossings <= want + 3
    IN Judge(ok, "freq", [rate |-> e.rate, tp |-> e.tp, crossings |-> e.crossings, want |-> want, finite |-> e.finite, max |-> e.maxabs_milli])

\* port view: "reading the AY data port returns the value last written to the selected register (at most
\* masked to the register's implemented bits) and register numbers wrap modulo 16"
RegMask == <<255, 15, 255, 15, 255, 15, 31, 255, 31, 31, 31, 255, 255, 15, 255, 255>>
RECURSIVE PortRun(_, _, _, _)
PortRun(ops, i, sel, regs) ==
    IF i > Len(ops) THEN TRUE
    ELSE LET o == ops[i] IN
         CASE o[1] = "sel" -> PortRun(ops, i + 1, o[2] % 16, regs)
           [] o[1] = "dat" -> PortRun(ops, i + 1, sel, [regs EXCEPT ![sel + 1] = o[2]])
           [] OTHER -> (o[2] = regs[sel + 1] \/ o[2] = (regs[sel + 1] & RegMask[sel + 1])) /\ PortRun(ops, i + 1, sel, regs)
AyPort(e) == Judge(PortRun(e.ops, 1, 0, [k \in 1..16 |-> 0]), "ayport", [ops |-> e.ops])

\* through the Spectrum's ports: a one-shot envelope (shapes 0-7, 9, 15: one ramp of 32 * EP ticks, here ~74 ms, then
\* level 0 for good) is heard, is silent nine frames later, and is heard again after R13 has been written again - with
\* any value of that group, the same one included ("for any sequence of AY register writes")
AyRetrig(e) ==
    Judge(e.first_burst > 0 /\ e.quiet = 0 /\ e.second_burst > 0, "ayretrig",
          [m |-> e.m, shape |-> e.shape, second |-> e.second, first |-> e.first_burst, quiet |-> e.quiet, again |-> e.second_burst])

Step(e) ==
    CASE e.ev = "ayretrig" -> AyRetrig(e) [] e.ev = "tone" -> Tone(e) [] e.ev = "noise" -> Noise(e) [] e.ev = "env" -> Env(e) [] e.ev = "mix" -> Mix(e) [] e.ev = "hist" -> Hist(e)
      [] e.ev = "dac" -> Dac(e) [] e.ev = "envdac" -> EnvDac(e) [] e.ev = "pan" -> Pan(e) [] e.ev = "freq" -> Freq(e) [] e.ev = "ayport" -> AyPort(e)

TraceNext == l <= Len(Rec) /\ Step(Rec[l]) /\ l' = l + 1
TraceSpec == TraceInit /\ [][TraceNext]_tvars
TraceAccepted ==
    LET d == TLCGet("stats").diameter IN
    IF d - 1 = Len(Rec) THEN TRUE ELSE Print(<<"TRACE-NOT-CONSUMED", d - 1, Len(Rec)>>, FALSE)
Summary == (l = Len(Rec) + 1) => PrintT(<<"SUMMARY", Len(Rec), bad>>)
=============================================================================
