------------------------------- MODULE MC_Asset -------------------------------
(* The trait's read_exact loop, run over every asset behaviour that the contract  *)
(* allows (any short-read pattern, either end-of-file convention), satisfies the  *)
(* read_exact contract and terminates: files of 0..MaxLen bytes, any position,    *)
(* any request size 0..MaxN.                                                      *)
EXTENDS Asset, TLC, FiniteSets

CONSTANTS MaxLen, MaxN
VARIABLES l, s0, n0, eofOk0       \* eofOk0: this asset reports the end of the file as Ok(0) (else as Err) - a fixed trait
vars == <<l, s0, n0, eofOk0>>

Files == UNION {[1..k -> 0..1] : k \in 0..MaxLen}
Init == \E d \in Files : \E p \in 0..(MaxLen + 1) : \E n \in 0..MaxN :
            /\ s0 = [data |-> d, pos |-> p] /\ n0 = n /\ l = LoopInit([data |-> d, pos |-> p], n)
            /\ eofOk0 \in BOOLEAN

\* every result the asset may give for read(buf[..want])
Results(s, n) ==
    IF Left(s) = 0 THEN (IF eofOk0 THEN {[kind |-> "ok", bytes |-> <<>>]} ELSE {[kind |-> "err"]})
    ELSE {[kind |-> "ok", bytes |-> SubSeq(s.data, s.pos + 1, s.pos + k)] : k \in 0..Min(n, Left(s))}
Next == /\ l.out = "run"
        /\ \E res \in {r \in Results(l.s, l.want) : ReadAllowed(l.s, l.want, r)} : l' = LoopStep(l, res)
        /\ UNCHANGED <<s0, n0, eofOk0>>
Spec == Init /\ [][Next]_vars /\ WF_vars(Next)

\* the loop's verdict is what the read_exact contract says, whatever the asset did
Contract ==
    l.out # "run" =>
        /\ ReadExactAllowed(s0, n0, [kind |-> l.out, bytes |-> l.got])
        /\ l.s \in ReadExactNextSet(s0, n0, [kind |-> l.out, bytes |-> l.got])
\* progress: every iteration fills at least one byte or ends the loop
Progress == [][l'.out = "run" => l'.want < l.want]_vars
Terminates == <>(l.out # "run")
=============================================================================
