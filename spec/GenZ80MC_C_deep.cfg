SPECIFICATION GSpec
CONSTANTS
  ROM <- RomC
  Depth = 7
INVARIANT Emit
CHECK_DEADLOCK FALSE
