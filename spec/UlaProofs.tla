----------------------------- MODULE UlaProofs -----------------------------
(* C05's conservation clause as an inductive step, proved with TLAPS for every *)
(* frame length and every step that does not exceed a frame (MC_Ula checks it  *)
(* with TLC for the two real frame lengths and steps 1..23 over two frames).   *)
EXTENDS Integers, TLAPS

CONSTANT Specs(_)

\* Ula.tla's Tick, textually
Tick(m, st, d) ==
    LET t == st.t + d IN
    IF t >= Specs(m).frame THEN [t |-> t - Specs(m).frame, frames |-> st.frames + 1]
    ELSE [t |-> t, frames |-> st.frames]

\* "after any number of frames the total executed T-states equal frames x frame length plus the
\* current in-frame offset", and the offset stays inside the frame
Conserved(m, st, total) == total = st.frames * Specs(m).frame + st.t /\ st.t < Specs(m).frame

THEOREM ConservationStep ==
    ASSUME NEW m, Specs(m).frame \in Nat \ {0},
           NEW t \in Nat, NEW frames \in Nat, NEW total \in Nat, NEW d \in Nat,
           d <= Specs(m).frame,
           Conserved(m, [t |-> t, frames |-> frames], total)
    PROVE  /\ Conserved(m, Tick(m, [t |-> t, frames |-> frames], d), total + d)
           /\ Tick(m, [t |-> t, frames |-> frames], d).frames \in {frames, frames + 1}
  <1> DEFINE F == Specs(m).frame
             st == [t |-> t, frames |-> frames]
  <1>0 F \in Nat /\ F > 0 /\ st.t = t /\ st.frames = frames OBVIOUS
  <1>1 total = frames * F + t /\ t < F BY DEF Conserved
  <1>2 CASE t + d >= F
    <2>1 Tick(m, st, d) = [t |-> t + d - F, frames |-> frames + 1] BY <1>2 DEF Tick
    <2>2 (frames + 1) * F = frames * F + F BY <1>0
    <2>3 t + d - F < F BY <1>0, <1>1
    <2> QED BY <1>0, <1>1, <2>1, <2>2, <2>3 DEF Conserved
  <1>3 CASE ~(t + d >= F)
    <2>1 Tick(m, st, d) = [t |-> t + d, frames |-> frames] BY <1>3 DEF Tick
    <2> QED BY <1>0, <1>1, <1>3, <2>1 DEF Conserved
  <1> QED BY <1>2, <1>3
=============================================================================
