------------------------------- MODULE Snapshot -------------------------------
(* C13 / C14: the SNA and SZX formats as functions between machine descriptions  *)
(* and byte strings. PAGE is the size of a RAM bank (16384 for traces, 1 or 2 in *)
(* the exhaustive round-trip model).                                             *)
(* A machine description d:                                                      *)
(*   [m, cpu: [af,bc,de,hl,af_,bc_,de_,hl_,ix,iy,sp,pc,i,r,iff1,iff2,im],         *)
(*    border, latch, ram: bank -> (offset -> byte)]                              *)
(* 48K machines use banks 5, 2, 0 for 0x4000, 0x8000, 0xC000.                    *)
EXTENDS Bits, Sequences, TLC

CONSTANT PAGE

\* RAM of a description: either an explicit function d.ram (models), or - for traces of the real machine
\* with 16K banks - a pseudo-random pattern known to the drivers plus a sparse list of overrides
\* d.ramw of <<bank, offset, value>>
MemPat(seed, bank, off) == ((off + seed + bank * 977) * 167 + (off \div 256) * 59 + 13) % 256
RamAt(d, b, o) ==
    IF "ramw" \in DOMAIN d
    THEN LET S == {i \in DOMAIN d.ramw : d.ramw[i][1] = b /\ d.ramw[i][2] = o} IN
         IF S = {} THEN MemPat(d.seed, b, o) ELSE d.ramw[CHOOSE i \in S : \A j \in S : j <= i][3]
    ELSE d.ram[b][o]

\* ---- SNA ------------------------------------------------------------------------------------
\* header: 0 I; 1-2 HL'; 3-4 DE'; 5-6 BC'; 7-8 AF'; 9-10 HL; 11-12 DE; 13-14 BC; 15-16 IY; 17-18 IX;
\* 19 bit 2 = IFF2; 20 R; 21-22 AF; 23-24 SP; 25 IM; 26 border
SnaHeader(c, sp, border) ==
    << c.i, Lo(c.hl_), Hi(c.hl_), Lo(c.de_), Hi(c.de_), Lo(c.bc_), Hi(c.bc_), Lo(c.af_), Hi(c.af_),
       Lo(c.hl), Hi(c.hl), Lo(c.de), Hi(c.de), Lo(c.bc), Hi(c.bc), Lo(c.iy), Hi(c.iy), Lo(c.ix), Hi(c.ix),
       c.iff2 * 4, c.r, Lo(c.af), Hi(c.af), Lo(sp), Hi(sp), c.im, border >>

\* 48K: PC is pushed; the RAM image is banks 5, 2, 0 with the two bytes below SP holding PC
Sna48Len == 27 + 3 * PAGE
WinBank48(w) == <<5, 2, 0>>[w]
\* byte k (0-based) of the 48K file; addresses are relative to the start of RAM (0x4000 = 0)
Sna48Byte(d, k) ==
    LET sp2 == (d.cpu.sp + 4 * PAGE - 2) % (4 * PAGE)           \* SP - 2 within the address space (4 * PAGE)
    IN IF k < 27 THEN SnaHeader(d.cpu, sp2, d.border)[k + 1]
       ELSE LET rel == k - 27                                   \* offset into RAM
                addr == rel + PAGE                              \* CPU address
            IN IF addr = sp2 THEN Lo(d.cpu.pc)
               ELSE IF addr = (sp2 + 1) % (4 * PAGE) THEN Hi(d.cpu.pc)
               ELSE RamAt(d, WinBank48((rel \div PAGE) + 1), rel % PAGE)

\* 128K: banks 5, 2, n (n = latch & 7); PC; latch; TR-DOS flag; banks 0,1,3,4,6,7 without n, ascending
TailBanks(n) == SelectSeq(<<0, 1, 3, 4, 6, 7>>, LAMBDA b : b # n)
Sna128Len(d) == 27 + 3 * PAGE + 4 + Len(TailBanks(d.latch % 8)) * PAGE
Sna128Byte(d, k) ==
    LET n == d.latch % 8 IN
    IF k < 27 THEN SnaHeader(d.cpu, d.cpu.sp, d.border)[k + 1]
    ELSE IF k < 27 + 3 * PAGE
    THEN LET rel == k - 27 IN RamAt(d, <<5, 2, n>>[(rel \div PAGE) + 1], rel % PAGE)
    ELSE IF k < 27 + 3 * PAGE + 4
    THEN << Lo(d.cpu.pc), Hi(d.cpu.pc), d.latch, 0 >>[k - (27 + 3 * PAGE) + 1]
    ELSE LET rel == k - (27 + 3 * PAGE + 4) IN RamAt(d, TailBanks(n)[(rel \div PAGE) + 1], rel % PAGE)

SnaLen(d) == IF d.m = 48 THEN Sna48Len ELSE Sna128Len(d)
SnaByte(d, k) == IF d.m = 48 THEN Sna48Byte(d, k) ELSE Sna128Byte(d, k)
SnaEncode(d) == [k \in 1..SnaLen(d) |-> SnaByte(d, k - 1)]

\* decoding (what a loader must produce): a description, or Err when the machine cannot represent the file
W(lo, hi) == hi * 256 + lo
Err == [m |-> 0]
IsErr(r) == r.m = 0
SnaDecode(f, m) ==
    LET is128 == Len(f) > 27 + 3 * PAGE
        cpu0 == [i |-> f[1], hl_ |-> W(f[2], f[3]), de_ |-> W(f[4], f[5]), bc_ |-> W(f[6], f[7]), af_ |-> W(f[8], f[9]),
                 hl |-> W(f[10], f[11]), de |-> W(f[12], f[13]), bc |-> W(f[14], f[15]), iy |-> W(f[16], f[17]),
                 ix |-> W(f[18], f[19]), iff2 |-> Bit(f[20], 2), iff1 |-> Bit(f[20], 2), r |-> f[21], af |-> W(f[22], f[23]),
                 sp |-> W(f[24], f[25]), im |-> f[26], pc |-> 0]
    IN IF (is128 /\ m = 48) \/ (~is128 /\ m = 128) THEN Err
       ELSE IF f[26] > 2 THEN Err
       ELSE IF ~is128
       THEN LET sp == cpu0.sp
                at(a) == f[27 + (a - PAGE) + 1]           \* RAM byte at CPU address a (a >= PAGE)
                pc == W(at(sp), at((sp + 1) % (4 * PAGE)))
            IN [m |-> 48, cpu |-> [cpu0 EXCEPT !.pc = pc, !.sp = (sp + 2) % (4 * PAGE)], border |-> f[27] % 8, latch |-> 0,
                ram |-> [b \in {5, 2, 0} |-> [o \in 0..(PAGE - 1) |->
                            f[27 + ((CHOOSE w \in 1..3 : WinBank48(w) = b) - 1) * PAGE + o + 1]]]]
       ELSE LET x == 27 + 3 * PAGE
                latch == f[x + 3]   n == latch % 8
                bankAt(b, o) == IF b = 5 THEN f[27 + o + 1] ELSE IF b = 2 THEN f[27 + PAGE + o + 1]
                                ELSE IF b = n THEN f[27 + 2 * PAGE + o + 1]
                                ELSE f[x + 4 + ((CHOOSE i \in 1..Len(TailBanks(n)) : TailBanks(n)[i] = b) - 1) * PAGE + o + 1]
            IN [m |-> 128, cpu |-> [cpu0 EXCEPT !.pc = W(f[x + 1], f[x + 2])], border |-> f[27] % 8, latch |-> latch,
                ram |-> [b \in 0..7 |-> [o \in 0..(PAGE - 1) |-> bankAt(b, o)]]]

\* ---- what is compared after a load ----------------------------------------------------------------
\* items the SNA format carries (IFF1 is not one of them)
SnaCpuFields == {"af", "bc", "de", "hl", "af_", "bc_", "de_", "hl_", "ix", "iy", "sp", "pc", "i", "r", "im", "iff2"}
AllCpuFields == SnaCpuFields \cup {"iff1"}
=============================================================================
