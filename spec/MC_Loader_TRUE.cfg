SPECIFICATION Spec
CONSTANT EofStops = TRUE
INVARIANTS WalkTerminates ScanTerminates Outcome
CHECK_DEADLOCK FALSE
