SPECIFICATION TraceSpec
CONSTANT Deviations = {"sinclair2down"}
INVARIANT Summary
POSTCONDITION TraceAccepted
CHECK_DEADLOCK FALSE
