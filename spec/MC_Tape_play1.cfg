SPECIFICATION Spec
CONSTANTS
  StepSet = {0, 1, 2}
  MaxCmds = 1
  GuardStop = FALSE
  RewindResets = FALSE
  AllowRewind = FALSE
  TapeSel = 1
INVARIANTS WaveformOk Frozen WholeTape
CHECK_DEADLOCK FALSE
