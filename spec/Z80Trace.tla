----------------------------- MODULE Z80Trace -----------------------------
(* C01 / C02 / C03: validates recorded `emulate()` calls of the real CPU     *)
(* (driven through a recording bus) against Z80.tla. Every event carries the *)
(* complete pre-state, the environment, the post-state and the bus log, so   *)
(* one wrong instruction cannot mask the next one.                           *)
EXTENDS Z80, Json, IOUtils, Sequences

Rec == ndJsonDeserialize(IOEnv.TRACE)

VARIABLES l, bad
tvars == <<l, bad>>

TraceInit == l = 1 /\ bad = 0

\* classification of a mismatch: which part of the statement is broken
Classify(o, e) ==
    LET nack == Len(e.ops) - Len(o.ops)
        sd == Diff(o.s, e.post, IF o.qfree THEN StateFields \ {"q"} ELSE StateFields)
        opsOk == nack >= 0 /\ SubSeq(e.ops, nack + 1, Len(e.ops)) = o.ops
        ackOk == nack >= 0 /\ DropWaits(SubSeq(e.ops, 1, nack)) = DropWaits(o.ack)
                 /\ Clk(SubSeq(e.ops, 1, nack)) = Clk(o.ack)
        dataOk == DataOnly(e.ops) = DataOnly(o.ack \o o.ops)
    IN [state |-> sd, ops |-> opsOk, ack |-> ackOk, data |-> dataOk, acked |-> o.acked,
        want |-> [f \in sd |-> o.s[f]], got |-> [f \in sd |-> e.post[f]],
        wantops |-> IF opsOk /\ ackOk THEN <<>> ELSE o.ack \o o.ops]

Step(e) ==
    IF e.ev # "step" THEN bad' = bad
    ELSE LET outs == Outcomes(e.pre, e.env) IN
         IF \E o \in outs : Explains(o, e.post, e.ops) THEN bad' = bad
         ELSE /\ PrintT(<<"MISMATCH", l, e.tag, {Classify(o, e) : o \in outs}>>)
              /\ bad' = bad + 1

TraceNext == l <= Len(Rec) /\ Step(Rec[l]) /\ l' = l + 1
TraceSpec == TraceInit /\ [][TraceNext]_tvars

TraceAccepted ==
    LET d == TLCGet("stats").diameter IN
    IF d - 1 = Len(Rec) THEN TRUE ELSE Print(<<"TRACE-NOT-CONSUMED", d - 1, Len(Rec)>>, FALSE)
Summary == (l = Len(Rec) + 1) => PrintT(<<"SUMMARY", Len(Rec), bad>>)
=============================================================================
