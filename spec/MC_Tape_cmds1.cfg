SPECIFICATION Spec
CONSTANTS
  StepSet = {0, 1, 2}
  MaxCmds = 6
  GuardStop = TRUE
  RewindResets = TRUE
  AllowRewind = TRUE
  TapeSel = 1
INVARIANTS WaveformOk Frozen WholeTape
CHECK_DEADLOCK FALSE
