
