----------------------------- MODULE InputTrace -----------------------------
(* C17 trace validation: host input events and port reads performed by the     *)
(* emulated CPU, judged by the statement-shaped held-sets of Input.tla.        *)
(* A read that only the named deviations explain is classified as such.        *)
EXTENDS Input, Json, IOUtils, Sequences

Rec == ndJsonDeserialize(IOEnv.TRACE)
CONSTANT Deviations          \* names of deviations that may be used to explain a mismatch

\* st: statement-shaped held-sets (strict). imd: the implementation-shaped matrices with the named
\* deviations switched on - MC_Input shows that without deviations they read the same, so a read that
\* imd explains and st does not is attributable to the deviation.
VARIABLES l, st, imd, cfg, bad
tvars == <<l, st, imd, cfg, bad>>
TraceInit == l = 1 /\ st = StInit /\ imd = ImInit /\ cfg = [kempston |-> FALSE, mouse |-> FALSE] /\ bad = 0

Hi8(port) == port \div 256
\* which single device a read port selects under the statement's masks (this trace only uses such ports)
IsUla(port) == port % 2 = 0
IsMouseButtons(port) == cfg.mouse /\ Bit(port, 0) = 1 /\ Bit(port, 5) = 0 /\ Bit(port, 8) = 0
IsMouseX(port) == cfg.mouse /\ Bit(port, 0) = 1 /\ Bit(port, 5) = 0 /\ Bit(port, 8) = 1 /\ Bit(port, 10) = 0
IsMouseY(port) == cfg.mouse /\ Bit(port, 0) = 1 /\ Bit(port, 5) = 0 /\ Bit(port, 8) = 1 /\ Bit(port, 10) = 1
IsKempston(port) == cfg.kempston /\ ~cfg.mouse /\ Bit(port, 0) = 1 /\ (port % 256) \div 32 = 0

Expected(port, devs) ==
    IF IsUla(port) THEN KeyBits(st, devs, Hi8(port))
    ELSE IF IsMouseButtons(port) THEN MouseButtons(st)
    ELSE IF IsMouseX(port) THEN st.mx
    ELSE IF IsMouseY(port) THEN st.my
    ELSE IF IsKempston(port) THEN KempstonByte(st)
    ELSE -1
Observed(e) == IF IsUla(e.port) THEN e.val % 32 ELSE e.val

Read(e) ==
    LET strict == Expected(e.port, {}) IN
    IF strict = -1 THEN Assert(FALSE, <<"driver read a port that does not select a single input device", e.port>>)
    ELSE IF strict = Observed(e) /\ (IsUla(e.port) => (Bit(e.val, 5) = 1 /\ Bit(e.val, 7) = 1)) THEN bad' = bad
    ELSE LET explained == IsUla(e.port) /\ Deviations # {} /\ ImKeyBits(imd, Hi8(e.port)) = Observed(e) IN
         /\ PrintT(<<"MISMATCH", l, IF explained THEN CHOOSE d \in Deviations : TRUE ELSE "unexplained",
                     [port |-> e.port, got |-> e.val, want |-> strict, keys |-> st.keys, ckeys |-> st.ckeys,
                      sjoy |-> st.sjoy]>>)
         /\ bad' = bad + 1

Step(e) ==
    CASE e.ev = "reset" -> st' = StInit /\ imd' = ImInit /\ cfg' = [kempston |-> e.kempston, mouse |-> e.mouse] /\ bad' = bad
      [] e.ev = "rd" -> Read(e) /\ UNCHANGED <<st, imd, cfg>>
      \* the initial value of the mouse counters is not part of the statement: learnt from the first reads
      [] e.ev = "learn" -> st' = [st EXCEPT !.wheel = e.buttons \div 16, !.mx = e.x, !.my = e.y] /\ UNCHANGED <<imd, cfg, bad>>
      \* host operations that are no input events (snapshot loads, sound switches) leave every source holding what it held
      [] e.ev = "hostop" -> UNCHANGED <<st, imd, cfg, bad>>
      [] OTHER -> st' = StEvent(st, e) /\ imd' = ImEvent(imd, e, Deviations) /\ UNCHANGED <<cfg, bad>>

TraceNext == l <= Len(Rec) /\ Step(Rec[l]) /\ l' = l + 1
TraceSpec == TraceInit /\ [][TraceNext]_tvars
TraceAccepted ==
    LET d == TLCGet("stats").diameter IN
    IF d - 1 = Len(Rec) THEN TRUE ELSE Print(<<"TRACE-NOT-CONSUMED", d - 1, Len(Rec)>>, FALSE)
Summary == (l = Len(Rec) + 1) => PrintT(<<"SUMMARY", Len(Rec), bad>>)
=============================================================================
