CONSTANT PAGE = 2
