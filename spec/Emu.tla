---------------------------------- MODULE Emu ----------------------------------
(* C16: the host loop (emulate_frames) over an abstract deterministic machine.     *)
(* The machine executes instruction k in Cost(k) T-states (any fixed function);    *)
(* its whole state is therefore determined by the number of instructions executed. *)
(* Implementation-shaped host loop: a frame counter that is reset when frames are  *)
(* handed to the host, breakpoint events checked before the frame count, Max mode  *)
(* leaving the inner loop after every frame and asking the stopwatch.              *)
EXTENDS Bits, Sequences, TLC

CONSTANTS F          \* T-states per frame (scaled)
Cost(k) == 4 + ((k * 7) % 5)      \* 4..8 T per instruction, fixed pattern

\* machine: [k (instructions executed), t (in-frame clock), frames (frames completed since power-on)]
MInit == [k |-> 0, t |-> 0, frames |-> 0]
MStep(m) ==
    LET t1 == m.t + Cost(m.k) IN
    IF t1 >= F THEN [k |-> m.k + 1, t |-> t1 - F, frames |-> m.frames + 1]
    ELSE [k |-> m.k + 1, t |-> t1, frames |-> m.frames]
\* the state every driving must reach after n instructions
RECURSIVE Ref(_)
Ref(n) == IF n = 0 THEN MInit ELSE MStep(Ref(n - 1))

\* one call of emulate_frames. mode = <<"count", n>> or <<"max">>; bp(k) = breakpoint after instruction k;
\* sw = sequence of stopwatch verdicts (TRUE = limit exceeded), consumed one per completed frame in Max mode;
\* passed = the controller's frame counter, which survives a breakpoint return and is reset when the frames
\* are handed to the host. Returns [m, passed, reason, reported]: reported = frames the host is told about.
RECURSIVE Loop(_, _, _, _, _, _)
Loop(m, passed, mode, bp, sw, seen) ==
    LET m1 == MStep(m)
        passed1 == passed + (m1.frames - m.frames)
    IN IF bp[m1.k] THEN [m |-> m1, passed |-> passed1, reason |-> "breakpoint", reported |-> seen, sw |-> sw]
       ELSE IF mode[1] = "count"
       THEN IF passed1 >= mode[2] THEN [m |-> m1, passed |-> 0, reason |-> "completed", reported |-> passed1, sw |-> sw]
            ELSE Loop(m1, passed1, mode, bp, sw, seen)
       ELSE IF passed1 # 0
       THEN IF Head(sw) THEN [m |-> m1, passed |-> 0, reason |-> "timeout", reported |-> seen + passed1, sw |-> Tail(sw)]
            ELSE Loop(m1, 0, mode, bp, Tail(sw), seen + passed1)
       ELSE Loop(m1, passed1, mode, bp, sw, seen)
Run(m, passed, mode, bp, sw) ==
    \* a frame that ended together with a breakpoint hit is reported before anything else is executed
    IF mode[1] = "count" /\ passed >= mode[2]
    THEN [m |-> m, passed |-> 0, reason |-> "completed", reported |-> passed, sw |-> sw]
    ELSE Loop(m, passed, mode, bp, sw, 0)
=============================================================================
