------------------------------ MODULE MC_Mixer ------------------------------
(* Scaled exhaustive model of C19: F = 24 T per frame, spf samples per frame,     *)
(* clock steps 1..5 T, speaker writes at any step, host drains all / nothing at   *)
(* frame ends.                                                                    *)
EXTENDS Mixer

CONSTANTS Spf, F, Frames, Drain, MaxW    \* Drain \in {"always", "never", "any"}; MaxW = speaker writes per frame
VARIABLES mx, t, nf, lastSample, hist, ok, nw
vars == <<mx, t, nf, lastSample, hist, ok, nw>>
\* hist: the levels in force at each T-state of the current frame (ghost, for the statement)

Init == mx = MxInit /\ t = 0 /\ nf = 0 /\ lastSample = 0 /\ hist = <<>> /\ ok = TRUE /\ nw = 0

Last(q, d) == IF q = <<>> THEN d ELSE q[Len(q)]

Tick(d) ==
    /\ t < F /\ nf < Frames
    /\ LET t1 == t + d
           m1 == Process(mx, Spf, F, t1)
       IN /\ lastSample' = IF Len(m1.q) > Len(mx.q) THEN m1.lvl ELSE lastSample
          /\ IF t1 >= F
             THEN \* frame complete: pad, check the frame's samples against the statement, hand over to the host
                  LET m2 == NewFrame(m1, Spf, IF Len(m1.q) > Len(mx.q) THEN m1.lvl ELSE lastSample)
                      frameSamples == m2.q
                      \* drained every frame => exactly Spf samples, sample k = level at time k*F/Spf within one sample
                      countOk == Drain # "always" \/ Len(frameSamples) = Spf
                      h2 == hist \o [i \in 1..d |-> mx.lvl]
                      \* level in force at the time of sample k (k = Spf: the very end of the frame)
                      LevelAt(k) == h2[Lesser((k * F) \div Spf, Len(h2) - 1) + 1]
                      trackOk == Drain # "always" \/
                                 \A k \in 0..(Spf - 1) :
                                    \* any level in force within one sample period around the sample's time
                                    frameSamples[k + 1] \in {h2[tt + 1] : tt \in ((Greater(k - 1, 0) * F) \div Spf)..Lesser(((k + 1) * F) \div Spf, Len(h2) - 1)}
                  IN /\ ok' = (ok /\ countOk /\ trackOk /\ Len(m2.q) < 2 * Spf)
                     /\ \E keep \in (IF Drain = "always" THEN {FALSE} ELSE IF Drain = "never" THEN {TRUE} ELSE BOOLEAN) :
                          mx' = [m2 EXCEPT !.q = IF keep THEN @ ELSE <<>>]
                     /\ t' = t1 - F /\ nf' = nf + 1 /\ hist' = <<>> /\ nw' = 0
             ELSE mx' = m1 /\ t' = t1 /\ nf' = nf /\ nw' = nw /\ hist' = hist \o [i \in 1..d |-> mx.lvl] /\ ok' = (ok /\ Len(m1.q) < 2 * Spf)
Out(v) == t < F /\ nf < Frames /\ nw < MaxW /\ nw' = nw + 1 /\ mx' = [mx EXCEPT !.lvl = v] /\ UNCHANGED <<t, nf, lastSample, hist, ok>>

Next == (\E d \in 1..4 : Tick(d)) \/ (\E v \in {0, 1} : v # mx.lvl /\ Out(v))
Spec == Init /\ [][Next]_vars
Paced == ok
=============================================================================
