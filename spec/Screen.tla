-------------------------------- MODULE Screen --------------------------------
(* C08: the standard decode of the ULA-visible screen memory.                   *)
EXTENDS Bits

\* "pixel (x,y) is bit 7-(x mod 8) of the byte at offset ((y&0xC0)<<5)|((y&7)<<8)|((y&0x38)<<2)|(x>>3),
\*  coloured by ink/paper/BRIGHT of the attribute at 0x1800+(y>>3)*32+(x>>3), with FLASH cells swapping
\*  ink and paper every 16 frames"
BitmapOff(y, col) == ((y \div 64) * 2048) + ((y % 8) * 256) + (((y \div 8) % 8) * 32) + col
AttrOff(y, col) == 6144 + (y \div 8) * 32 + col

\* colour value as the host receives it: colour index 0..7, plus 8 when BRIGHT
PixelOf(bmp, attr, x, flashOn) ==
    LET set == Bit(bmp, 7 - (x % 8)) = 1
        inv == Bit(attr, 7) = 1 /\ flashOn
        ink == attr % 8
        paper == (attr \div 8) % 8
    IN (IF set # inv THEN ink ELSE paper) + 8 * Bit(attr, 6)
Pixel(scr, x, y, flashOn) ==     \* scr: 6912 bytes, 1-based
    PixelOf(scr[BitmapOff(y, x \div 8) + 1], scr[AttrOff(y, x \div 8) + 1], x, flashOn)

\* the implementation's inverse maps (relative address -> line / column), as in utils/screen.rs
ImplLine(rel) == LET l == rel % 256   h == rel \div 256 IN (h % 8) + ((l \div 32) * 8) + ((h \div 8) * 64)
ImplCol(rel) == rel % 32
ImplAttrRow(rel) == (rel - 6144) \div 32
ImplAttrCol(rel) == (rel - 6144) % 32
=============================================================================
