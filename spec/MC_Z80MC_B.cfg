SPECIFICATION Spec
CONSTANTS
  ROM <- RomB
  Depth = 22
INVARIANTS IntOnlyWhenAllowed NmiNotInsidePrefix AckFlipFlops AckTarget AckTime HaltedStays EntersHalt RetnCopies ShadowMatches
CHECK_DEADLOCK FALSE
