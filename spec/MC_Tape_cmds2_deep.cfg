SPECIFICATION Spec
CONSTANTS
  StepSet = {0, 1, 2}
  MaxCmds = 9
  GuardStop = TRUE
  RewindResets = TRUE
  AllowRewind = TRUE
  TapeSel = 2
INVARIANTS WaveformOk Frozen WholeTape
CHECK_DEADLOCK FALSE
