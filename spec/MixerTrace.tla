----------------------------- MODULE MixerTrace -----------------------------
(* C19 trace validation with the real numbers: per frame the samples popped by   *)
(* the host (as runs of speaker/MIC level codes) and the port writes that were   *)
(* issued during it.                                                             *)
EXTENDS Mixer, Ula, Json, IOUtils, FiniteSets

Rec == ndJsonDeserialize(IOEnv.TRACE)

VARIABLES l, cfg, bad
tvars == <<l, cfg, bad>>
TraceInit == l = 1 /\ cfg = [m |-> 48, rate |-> 44100, volume |-> 100, ay |-> FALSE, drain |-> "always"] /\ bad = 0
Report(kind, info) == PrintT(<<"MISMATCH", l, kind, info>>) /\ bad' = bad + 1

\* a write started at t0 (OUT (C),A) becomes effective inside its I/O cycle: t0+7 .. t0+12
Early(w) == w[1] + 7
Late(w) == w[1] + 12

RECURSIVE CodeAt(_, _)
CodeAt(runs, k) == IF k < runs[1][2] THEN runs[1][1] ELSE CodeAt(Tail(runs), k - runs[1][2])
RECURSIVE Starts(_, _)
Starts(runs, acc) == IF runs = <<>> THEN <<>> ELSE <<acc>> \o Starts(Tail(runs), acc + runs[1][2])

AFrame(e) ==
    LET F == Frame(cfg.m)
        spf == cfg.rate \div 50
        ws == e.writes
        n == Len(ws)
        lv(j) == IF j = 0 THEN e.start ELSE ws[j][2]
        \* "sample k equals the level the program had set at frame time k/spf" give or take one sample:
        \* the levels that may be in force somewhere in [time(k-1), time(k+1)]
        TimeOf(k) == (k * F) \div spf
        Allowed(k) ==
            LET lo == TimeOf(IF k = 0 THEN 0 ELSE k - 1)   hi == TimeOf(k + 1) + 1
                jlo == Cardinality({j \in 1..n : Late(ws[j]) <= lo})
                jhi == Cardinality({j \in 1..n : Early(ws[j]) <= hi})
            IN {lv(j) : j \in jlo..jhi}
        countOk == cfg.drain # "always" \/ e.n = spf
        \* "All samples are finite and within the bound implied by the volume setting"
        boundMicro == cfg.volume * 3000 + (IF cfg.ay THEN cfg.volume * 15000 ELSE 0)
        rangeOk == e.finite /\ e.maxabs_micro <= boundMicro + 2
        \* beeper-only configurations: every sample is one of the four speaker/MIC levels, both channels equal
        trackOk ==
            IF cfg.ay \/ cfg.drain # "always" THEN TRUE
            ELSE LET runs == e.runs
                     st == Starts(runs, 0)
                     ends == [i \in DOMAIN runs |-> st[i] + runs[i][2] - 1]
                     \* every run's level is allowed at its first and last sample
                     runsOk == \A i \in DOMAIN runs : runs[i][1] \in Allowed(st[i]) /\ runs[i][1] \in Allowed(ends[i])
                     \* every level that was in force for at least five sample periods is audible in the middle of its stretch
                     segOk == \A j \in 0..n :
                                LET a == IF j = 0 THEN 0 ELSE DuePos(spf, F, Late(ws[j]))
                                    b == IF j = n THEN spf ELSE DuePos(spf, F, Early(ws[j + 1]))
                                IN (b - a >= 5) => (CodeAt(runs, (a + b) \div 2) = lv(j) /\ CodeAt(runs, a + 2) = lv(j) /\ CodeAt(runs, b - 3) = lv(j))
                 IN e.lr_equal /\ runsOk /\ segOk
    IN IF ~e.drained THEN bad' = bad
       ELSE IF countOk /\ rangeOk /\ trackOk THEN bad' = bad
       ELSE Report("aframe", [rate |-> cfg.rate, m |-> cfg.m, n |-> e.n, want |-> spf, count |-> countOk, range |-> rangeOk, track |-> trackOk,
                              writes |-> e.writes, start |-> e.start, runs |-> IF cfg.ay THEN <<>> ELSE e.runs, max |-> e.maxabs_micro])

Step(e) ==
    CASE e.ev = "acfg" -> cfg' = [m |-> e.m, rate |-> e.rate, volume |-> e.volume, ay |-> e.ay, drain |-> e.drain] /\ bad' = bad
      [] e.ev = "aframe" -> AFrame(e) /\ UNCHANGED cfg
      \* "if the host never drains audio the queue stays below two frames' worth of samples"
      [] e.ev = "aend" -> /\ IF e.queued < 2 * (cfg.rate \div 50) THEN bad' = bad
                             ELSE Report("queue", [queued |-> e.queued, spf |-> cfg.rate \div 50])
                          /\ UNCHANGED cfg

TraceNext == l <= Len(Rec) /\ Step(Rec[l]) /\ l' = l + 1
TraceSpec == TraceInit /\ [][TraceNext]_tvars
TraceAccepted ==
    LET d == TLCGet("stats").diameter IN
    IF d - 1 = Len(Rec) THEN TRUE ELSE Print(<<"TRACE-NOT-CONSUMED", d - 1, Len(Rec)>>, FALSE)
Summary == (l = Len(Rec) + 1) => PrintT(<<"SUMMARY", Len(Rec), bad>>)
=============================================================================
