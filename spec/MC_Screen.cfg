
