SPECIFICATION TraceSpec
CONSTANT PAGE = 16384
INVARIANT Summary
POSTCONDITION TraceAccepted
CHECK_DEADLOCK FALSE
