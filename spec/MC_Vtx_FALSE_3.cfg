SPECIFICATION Spec
CONSTANTS
  Spf = 3
  MaxLen = 5
  Stereo = FALSE
INVARIANTS PrefixOfCanon EndMeansAll NoEarlyStall
CHECK_DEADLOCK FALSE
