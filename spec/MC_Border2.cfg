SPECIFICATION Spec
CONSTANTS
  MaxW1 = 1
  MaxW2 = 2
  Frames = 2
INVARIANT BorderOk
CHECK_DEADLOCK FALSE
