-------------------------------- MODULE Z80 --------------------------------
(* The NMOS Zilog Z80 at the granularity of one `emulate()` call of the      *)
(* implementation: an optional interrupt acknowledge followed by one         *)
(* instruction, or by one "DD/FD followed by another prefix" fragment.       *)
(*                                                                           *)
(* Written from the documented behaviour of the chip (Zilog manual, "The     *)
(* Undocumented Z80 Documented", the MEMPTR and Q-latch notes, the block-    *)
(* instruction flag research, the ULA contention tables for the addresses    *)
(* carried by internal cycles) - not from the Rust sources.                  *)
(*                                                                           *)
(* Emulate(s, env) returns a record                                          *)
(*     [s |-> post-state, ack |-> bus operations of the acknowledge,         *)
(*      ops |-> bus operations of the instruction, qfree, acked, nmiopt]     *)
(* Bus operations are 3-tuples in the vocabulary of the bus trait:           *)
(*   <<"mreq",a,n>> <<"nomreq",a,1>> <<"int",0,n>> <<"rd",a,v>> <<"wr",a,v>> *)
(*   <<"in",p,v>> <<"out",p,v>> <<"iack",0,v>>                               *)
EXTENDS Bits, TLC

FC == 1   FN == 2   FP == 4   F3 == 8   FH == 16   F5 == 32   FZ == 64   FS == 128

\* ---- environment -----------------------------------------------------------
\* Memory and port contents are a fixed pseudo-random function of a seed, overridden by the
\* sparse list env.poke / env.io of <<address, value>> pairs (first match wins).
\* (periodic in 16K so that the same contents can be laid out in every ROM page and RAM bank)
Base(seed, a) == LET o == a % 16384 IN ((o + seed) * 167 + (o \div 256) * 59 + 13) % 256
IoBase(seed, p) == ((p + seed) * 131 + (p \div 256) * 37 + 7) % 256

Lookup(seq, a, dflt) ==
    LET S == {i \in DOMAIN seq : seq[i][1] = a} IN
    IF S = {} THEN dflt ELSE seq[CHOOSE i \in S : \A j \in S : i <= j][2]
\* (models may instead give a small ROM that is mirrored through the whole address space)
Mem(env, a) == IF "rom" \in DOMAIN env THEN env.rom[(a % Len(env.rom)) + 1]
               ELSE Lookup(env.poke, a, Base(env.seed, a))
PortIn(env, p) == Lookup(env.io, p, IoBase(env.seed, p))

\* ---- bus operations --------------------------------------------------------
M1(a, v) == << <<"mreq", a, 4>>, <<"rd", a, v>> >>
MR(a, v) == << <<"mreq", a, 3>>, <<"rd", a, v>> >>
MW(a, v) == << <<"mreq", a, 3>>, <<"wr", a, v>> >>
N(a, n)  == [k \in 1..n |-> <<"nomreq", a, 1>>]
IOR(p, v) == << <<"in", p, v>> >>
IOW(p, v) == << <<"out", p, v>> >>

\* ---- registers -------------------------------------------------------------
BC(s) == s.b * 256 + s.c
DE(s) == s.d * 256 + s.e
HL(s) == s.h * 256 + s.l
AF(s) == s.a * 256 + s.f
IR(s) == s.i * 256 + s.r
\* HL, IX or IY according to the prefix mode m (0 none, 1 DD, 2 FD)
XY(s, m) == CASE m = 0 -> HL(s) [] m = 1 -> s.ix [] m = 2 -> s.iy
SetXY(s, m, v) ==
    CASE m = 0 -> [s EXCEPT !.h = Hi(v), !.l = Lo(v)]
      [] m = 1 -> [s EXCEPT !.ix = v]
      [] m = 2 -> [s EXCEPT !.iy = v]
\* 8-bit register r[i]; H and L become the halves of IX/IY when m # 0. i = 6 is not a register.
GetR(s, i, m) ==
    CASE i = 0 -> s.b [] i = 1 -> s.c [] i = 2 -> s.d [] i = 3 -> s.e
      [] i = 4 -> Hi(XY(s, m)) [] i = 5 -> Lo(XY(s, m)) [] i = 7 -> s.a
SetR(s, i, m, v) ==
    CASE i = 0 -> [s EXCEPT !.b = v] [] i = 1 -> [s EXCEPT !.c = v]
      [] i = 2 -> [s EXCEPT !.d = v] [] i = 3 -> [s EXCEPT !.e = v]
      [] i = 4 -> SetXY(s, m, Mk16(v, Lo(XY(s, m))))
      [] i = 5 -> SetXY(s, m, Mk16(Hi(XY(s, m)), v))
      [] i = 7 -> [s EXCEPT !.a = v]
\* register pairs rp[p] (SP at 3) and rp2[p] (AF at 3)
GetRP(s, p, m) == CASE p = 0 -> BC(s) [] p = 1 -> DE(s) [] p = 2 -> XY(s, m) [] p = 3 -> s.sp
SetRP(s, p, m, v) ==
    CASE p = 0 -> [s EXCEPT !.b = Hi(v), !.c = Lo(v)]
      [] p = 1 -> [s EXCEPT !.d = Hi(v), !.e = Lo(v)]
      [] p = 2 -> SetXY(s, m, v)
      [] p = 3 -> [s EXCEPT !.sp = v]
GetRP2(s, p, m) == IF p = 3 THEN AF(s) ELSE GetRP(s, p, m)
\* POP AF does not go through the ALU: Q is not loaded
SetRP2(s, p, m, v) == IF p = 3 THEN [s EXCEPT !.a = Hi(v), !.f = Lo(v)] ELSE SetRP(s, p, m, v)

\* the flag register is written through the ALU path: Q follows it
SetF(s, f) == [s EXCEPT !.f = f, !.q = f]
\* R: the low seven bits count M1 cycles, bit 7 is kept
IncR(r, n) == (r \div 128) * 128 + (((r % 128) + n) % 128)

Flag(s, mask) == (s.f \div mask) % 2
Cond(s, y) ==
    CASE y = 0 -> Flag(s, FZ) = 0 [] y = 1 -> Flag(s, FZ) = 1
      [] y = 2 -> Flag(s, FC) = 0 [] y = 3 -> Flag(s, FC) = 1
      [] y = 4 -> Flag(s, FP) = 0 [] y = 5 -> Flag(s, FP) = 1
      [] y = 6 -> Flag(s, FS) = 0 [] y = 7 -> Flag(s, FS) = 1

\* ---- flag helpers ------------------------------------------------------------
B2N(b) == IF b THEN 1 ELSE 0
F53(v) == Bit(v, 5) * F5 + Bit(v, 3) * F3
SZ(v) == Bit(v, 7) * FS + (IF v = 0 THEN FZ ELSE 0)
SZ53(v) == SZ(v) + F53(v)
SZ53P(v) == SZ53(v) + Parity(v) * FP

\* 8-bit add / subtract with carry-in c: result and full flag byte
Add8(a, b, c) ==
    LET r == a + b + c
        res == r % 256
        hf == B2N((a % 16) + (b % 16) + c >= 16)
        vf == B2N(Bit(a, 7) = Bit(b, 7) /\ Bit(res, 7) # Bit(a, 7))
    IN [v |-> res, f |-> SZ53(res) + hf * FH + vf * FP + B2N(r >= 256) * FC]
Sub8(a, b, c) ==
    LET r == a - b - c
        res == (r + 512) % 256
        hf == B2N((a % 16) - (b % 16) - c < 0)
        vf == B2N(Bit(a, 7) # Bit(b, 7) /\ Bit(res, 7) # Bit(a, 7))
    IN [v |-> res, f |-> SZ53(res) + hf * FH + vf * FP + FN + B2N(r < 0) * FC]

\* the eight accumulator operations alu[y]; returns new A and F
Alu(s, y, v) ==
    LET a == s.a
        c == Flag(s, FC)
    IN CASE y = 0 -> LET x == Add8(a, v, 0) IN [a |-> x.v, f |-> x.f]
         [] y = 1 -> LET x == Add8(a, v, c) IN [a |-> x.v, f |-> x.f]
         [] y = 2 -> LET x == Sub8(a, v, 0) IN [a |-> x.v, f |-> x.f]
         [] y = 3 -> LET x == Sub8(a, v, c) IN [a |-> x.v, f |-> x.f]
         [] y = 4 -> LET x == And8(a, v) IN [a |-> x, f |-> SZ53P(x) + FH]
         [] y = 5 -> LET x == Xor8(a, v) IN [a |-> x, f |-> SZ53P(x)]
         [] y = 6 -> LET x == Or8(a, v) IN [a |-> x, f |-> SZ53P(x)]
         \* CP: A unchanged, bits 5/3 come from the operand
         [] y = 7 -> LET x == Sub8(a, v, 0) IN
                     [a |-> a, f |-> x.f - F53(x.v) + F53(v)]
DoAlu(s, y, v) == LET x == Alu(s, y, v) IN SetF([s EXCEPT !.a = x.a], x.f)

IncF(s, v) ==  \* flags of INC on operand v
    LET r == (v + 1) % 256 IN
    SZ53(r) + B2N(v % 16 = 15) * FH + B2N(v = 127) * FP + Flag(s, FC) * FC
DecF(s, v) ==
    LET r == (v + 255) % 256 IN
    SZ53(r) + B2N(v % 16 = 0) * FH + B2N(v = 128) * FP + FN + Flag(s, FC) * FC

\* rotates / shifts rot[y] of the CB page: result and flags (carry-in c)
Rot(y, v, c) ==
    LET res ==
          CASE y = 0 -> ((v * 2) % 256) + Bit(v, 7)
            [] y = 1 -> (v \div 2) + Bit(v, 0) * 128
            [] y = 2 -> ((v * 2) % 256) + c
            [] y = 3 -> (v \div 2) + c * 128
            [] y = 4 -> (v * 2) % 256
            [] y = 5 -> (v \div 2) + Bit(v, 7) * 128
            [] y = 6 -> ((v * 2) % 256) + 1
            [] y = 7 -> v \div 2
        cy == IF y \in {0, 2, 4, 6} THEN Bit(v, 7) ELSE Bit(v, 0)
    IN [v |-> res, f |-> SZ53P(res) + cy * FC]

\* ---- results -------------------------------------------------------------------
Res(s, ops) == [s |-> s, ops |-> ops, qfree |-> FALSE]

\* operand (HL) / (IX+d) / (IY+d): address, the extra cycles, PC after the displacement, MEMPTR
Ind(s, env, m) ==
    IF m = 0 THEN [a |-> HL(s), ops |-> <<>>, pc |-> s.pc, wz |-> s.wz]
    ELSE LET db == Mem(env, s.pc)
             a == W16(XY(s, m) + SignExt(db) + 65536)
         IN [a |-> a, ops |-> MR(s.pc, db) \o N(s.pc, 5), pc |-> W16(s.pc + 1), wz |-> a]

Push(s, v) == \* the two write cycles of a push and the new SP
    [ops |-> MW(W16(s.sp + 65535), Hi(v)) \o MW(W16(s.sp + 65534), Lo(v)), sp |-> W16(s.sp + 65534)]

\* ---- main page -------------------------------------------------------------------
\* s.pc points behind the opcode byte; qp is the Q latch left by the previous instruction
Main(s0, env, ops, op, m, qp) ==
  LET s == [s0 EXCEPT !.q = 0]
      x == op \div 64   y == (op \div 8) % 8   z == op % 8   p == y \div 2   qq == y % 2
      n1 == Mem(env, s.pc)                 \* first operand byte
      n2 == Mem(env, W16(s.pc + 1))        \* second operand byte
      nn == Mk16(n2, n1)
      pc1 == W16(s.pc + 1)   pc2 == W16(s.pc + 2)
      rel == W16(s.pc + 1 + SignExt(n1) + 65536)
      fetch2 == MR(s.pc, n1) \o MR(pc1, n2)
  IN
  CASE x = 0 /\ z = 0 ->
        ( CASE y = 0 -> Res(s, ops)
            [] y = 1 -> Res([s EXCEPT !.a = Hi(s.af_), !.f = Lo(s.af_), !.af_ = AF(s)], ops)
            [] y = 2 -> LET b1 == (s.b + 255) % 256
                            sb == [s EXCEPT !.b = b1] IN
                        IF b1 # 0
                        THEN Res([sb EXCEPT !.pc = rel, !.wz = rel], ops \o N(IR(s), 1) \o MR(s.pc, n1) \o N(s.pc, 5))
                        ELSE Res([sb EXCEPT !.pc = pc1], ops \o N(IR(s), 1) \o MR(s.pc, n1))
            [] y = 3 -> Res([s EXCEPT !.pc = rel, !.wz = rel], ops \o MR(s.pc, n1) \o N(s.pc, 5))
            [] OTHER -> IF Cond(s, y - 4)
                        THEN Res([s EXCEPT !.pc = rel, !.wz = rel], ops \o MR(s.pc, n1) \o N(s.pc, 5))
                        ELSE Res([s EXCEPT !.pc = pc1], ops \o MR(s.pc, n1)) )
    [] x = 0 /\ z = 1 ->
        IF qq = 0 THEN Res([SetRP(s, p, m, nn) EXCEPT !.pc = pc2], ops \o fetch2)
        ELSE LET a == XY(s, m)   b == GetRP(s, p, m)   r == a + b
                 nf == Flag(s, FS) * FS + Flag(s, FZ) * FZ + Flag(s, FP) * FP
                       + B2N((a % 4096) + (b % 4096) >= 4096) * FH + B2N(r >= 65536) * FC
                       + F53(Hi(r % 65536))
             IN Res(SetF([SetXY(s, m, r % 65536) EXCEPT !.wz = W16(a + 1)], nf), ops \o N(IR(s), 7))
    [] x = 0 /\ z = 2 ->
        ( CASE y = 0 -> Res([s EXCEPT !.wz = Mk16(s.a, Lo(BC(s) + 1))], ops \o MW(BC(s), s.a))
            [] y = 1 -> Res([s EXCEPT !.a = Mem(env, BC(s)), !.wz = W16(BC(s) + 1)], ops \o MR(BC(s), Mem(env, BC(s))))
            [] y = 2 -> Res([s EXCEPT !.wz = Mk16(s.a, Lo(DE(s) + 1))], ops \o MW(DE(s), s.a))
            [] y = 3 -> Res([s EXCEPT !.a = Mem(env, DE(s)), !.wz = W16(DE(s) + 1)], ops \o MR(DE(s), Mem(env, DE(s))))
            [] y = 4 -> Res([s EXCEPT !.pc = pc2, !.wz = W16(nn + 1)],
                            ops \o fetch2 \o MW(nn, Lo(XY(s, m))) \o MW(W16(nn + 1), Hi(XY(s, m))))
            [] y = 5 -> LET lo == Mem(env, nn)  hi == Mem(env, W16(nn + 1)) IN
                        Res([SetXY(s, m, Mk16(hi, lo)) EXCEPT !.pc = pc2, !.wz = W16(nn + 1)],
                            ops \o fetch2 \o MR(nn, lo) \o MR(W16(nn + 1), hi))
            [] y = 6 -> Res([s EXCEPT !.pc = pc2, !.wz = Mk16(s.a, Lo(nn + 1))], ops \o fetch2 \o MW(nn, s.a))
            [] y = 7 -> Res([s EXCEPT !.a = Mem(env, nn), !.pc = pc2, !.wz = W16(nn + 1)],
                            ops \o fetch2 \o MR(nn, Mem(env, nn))) )
    [] x = 0 /\ z = 3 ->
        LET v == GetRP(s, p, m) IN
        Res(SetRP(s, p, m, IF qq = 0 THEN W16(v + 1) ELSE W16(v + 65535)), ops \o N(IR(s), 2))
    [] x = 0 /\ z \in {4, 5} ->
        IF y = 6
        THEN LET i == Ind(s, env, m)   v == Mem(env, i.a)
                 r == IF z = 4 THEN (v + 1) % 256 ELSE (v + 255) % 256
                 f == IF z = 4 THEN IncF(s, v) ELSE DecF(s, v)
             IN Res(SetF([s EXCEPT !.pc = i.pc, !.wz = i.wz], f),
                    ops \o i.ops \o MR(i.a, v) \o N(i.a, 1) \o MW(i.a, r))
        ELSE LET v == GetR(s, y, m)
                 r == IF z = 4 THEN (v + 1) % 256 ELSE (v + 255) % 256
                 f == IF z = 4 THEN IncF(s, v) ELSE DecF(s, v)
             IN Res(SetF(SetR(s, y, m, r), f), ops)
    [] x = 0 /\ z = 6 ->
        IF y = 6
        THEN IF m = 0 THEN Res([s EXCEPT !.pc = pc1], ops \o MR(s.pc, n1) \o MW(HL(s), n1))
             ELSE LET a == W16(XY(s, m) + SignExt(n1) + 65536) IN
                  Res([s EXCEPT !.pc = pc2, !.wz = a],
                      ops \o MR(s.pc, n1) \o MR(pc1, n2) \o N(pc1, 2) \o MW(a, n2))
        ELSE Res([SetR(s, y, m, n1) EXCEPT !.pc = pc1], ops \o MR(s.pc, n1))
    [] x = 0 /\ z = 7 ->
       (LET a == s.a   c == Flag(s, FC)
            keep == Flag(s, FS) * FS + Flag(s, FZ) * FZ + Flag(s, FP) * FP
        IN CASE y = 0 -> LET r == ((a * 2) % 256) + Bit(a, 7) IN
                         Res(SetF([s EXCEPT !.a = r], keep + F53(r) + Bit(a, 7) * FC), ops)
             [] y = 1 -> LET r == (a \div 2) + Bit(a, 0) * 128 IN
                         Res(SetF([s EXCEPT !.a = r], keep + F53(r) + Bit(a, 0) * FC), ops)
             [] y = 2 -> LET r == ((a * 2) % 256) + c IN
                         Res(SetF([s EXCEPT !.a = r], keep + F53(r) + Bit(a, 7) * FC), ops)
             [] y = 3 -> LET r == (a \div 2) + c * 128 IN
                         Res(SetF([s EXCEPT !.a = r], keep + F53(r) + Bit(a, 0) * FC), ops)
             [] y = 4 -> \* DAA
                  LET lo == a % 16   hf == Flag(s, FH)   nf == Flag(s, FN)
                      low6 == hf = 1 \/ lo > 9
                      hi6 == c = 1 \/ a > 153
                      corr == (IF low6 THEN 6 ELSE 0) + (IF hi6 THEN 96 ELSE 0)
                      r == IF nf = 1 THEN (a + 256 - corr) % 256 ELSE (a + corr) % 256
                      h2 == IF nf = 1 THEN B2N(hf = 1 /\ lo < 6) ELSE B2N(lo > 9)
                  IN Res(SetF([s EXCEPT !.a = r], SZ53P(r) + h2 * FH + nf * FN + B2N(hi6) * FC), ops)
             [] y = 5 -> LET r == 255 - a IN
                         Res(SetF([s EXCEPT !.a = r], keep + F53(r) + FH + FN + c * FC), ops)
             \* SCF / CCF: bits 5 and 3 are ((Q xor F) or A)
             [] y = 6 -> Res(SetF(s, keep + F53(Or8(Xor8(qp, s.f), a)) + FC), ops)
             [] y = 7 -> Res(SetF(s, keep + F53(Or8(Xor8(qp, s.f), a)) + c * FH + (1 - c) * FC), ops) )
    [] x = 1 ->
        IF y = 6 /\ z = 6
        THEN \* HALT: PC stays on the instruction, which is fetched again by every later call
             Res([s EXCEPT !.halted = 1, !.pc = W16(s.pc + 65535)], ops)
        ELSE IF z = 6
        THEN LET i == Ind(s, env, m)   v == Mem(env, i.a) IN
             Res([SetR(s, y, 0, v) EXCEPT !.pc = i.pc, !.wz = i.wz], ops \o i.ops \o MR(i.a, v))
        ELSE IF y = 6
        THEN LET i == Ind(s, env, m) IN
             Res([s EXCEPT !.pc = i.pc, !.wz = i.wz], ops \o i.ops \o MW(i.a, GetR(s, z, 0)))
        ELSE Res(SetR(s, y, m, GetR(s, z, m)), ops)
    [] x = 2 ->
        IF z = 6
        THEN LET i == Ind(s, env, m)   v == Mem(env, i.a) IN
             Res(DoAlu([s EXCEPT !.pc = i.pc, !.wz = i.wz], y, v), ops \o i.ops \o MR(i.a, v))
        ELSE Res(DoAlu(s, y, GetR(s, z, m)), ops)
    [] x = 3 /\ z = 0 ->
        IF Cond(s, y)
        THEN LET lo == Mem(env, s.sp)   hi == Mem(env, W16(s.sp + 1))   a == Mk16(hi, lo) IN
             Res([s EXCEPT !.pc = a, !.wz = a, !.sp = W16(s.sp + 2)],
                 ops \o N(IR(s), 1) \o MR(s.sp, lo) \o MR(W16(s.sp + 1), hi))
        ELSE Res(s, ops \o N(IR(s), 1))
    [] x = 3 /\ z = 1 ->
        IF qq = 0
        THEN LET lo == Mem(env, s.sp)   hi == Mem(env, W16(s.sp + 1)) IN
             Res(SetRP2([s EXCEPT !.sp = W16(s.sp + 2)], p, m, Mk16(hi, lo)),
                 ops \o MR(s.sp, lo) \o MR(W16(s.sp + 1), hi))
        ELSE (CASE p = 0 -> LET lo == Mem(env, s.sp)   hi == Mem(env, W16(s.sp + 1))   a == Mk16(hi, lo) IN
                           Res([s EXCEPT !.pc = a, !.wz = a, !.sp = W16(s.sp + 2)],
                               ops \o MR(s.sp, lo) \o MR(W16(s.sp + 1), hi))
               [] p = 1 -> Res([s EXCEPT !.b = Hi(s.bc_), !.c = Lo(s.bc_), !.d = Hi(s.de_), !.e = Lo(s.de_),
                                         !.h = Hi(s.hl_), !.l = Lo(s.hl_),
                                         !.bc_ = BC(s), !.de_ = DE(s), !.hl_ = HL(s)], ops)
               [] p = 2 -> Res([s EXCEPT !.pc = XY(s, m)], ops)
               [] p = 3 -> Res([s EXCEPT !.sp = XY(s, m)], ops \o N(IR(s), 2)) )
    [] x = 3 /\ z = 2 ->
        Res([s EXCEPT !.pc = IF Cond(s, y) THEN nn ELSE pc2, !.wz = nn], ops \o fetch2)
    [] x = 3 /\ z = 3 ->
        ( CASE y = 0 -> Res([s EXCEPT !.pc = nn, !.wz = nn], ops \o fetch2)
            [] y = 2 -> LET port == Mk16(s.a, n1) IN
                        Res([s EXCEPT !.pc = pc1, !.wz = Mk16(s.a, Lo(n1 + 1))],
                            ops \o MR(s.pc, n1) \o IOW(port, s.a))
            [] y = 3 -> LET port == Mk16(s.a, n1)   v == PortIn(env, port) IN
                        Res([s EXCEPT !.a = v, !.pc = pc1, !.wz = W16(port + 1)],
                            ops \o MR(s.pc, n1) \o IOR(port, v))
            [] y = 4 -> LET lo == Mem(env, s.sp)   hi == Mem(env, W16(s.sp + 1))   v == XY(s, m)
                            sp1 == W16(s.sp + 1) IN
                        Res([SetXY(s, m, Mk16(hi, lo)) EXCEPT !.wz = Mk16(hi, lo)],
                            ops \o MR(s.sp, lo) \o MR(sp1, hi) \o N(sp1, 1)
                                \o MW(sp1, Hi(v)) \o MW(s.sp, Lo(v)) \o N(s.sp, 2))
            [] y = 5 -> Res([s EXCEPT !.d = s.h, !.e = s.l, !.h = s.d, !.l = s.e], ops)
            [] y = 6 -> Res([s EXCEPT !.iff1 = 0, !.iff2 = 0, !.ei = 1], ops)
            [] y = 7 -> Res([s EXCEPT !.iff1 = 1, !.iff2 = 1, !.ei = 1], ops) )
    [] x = 3 /\ z = 4 ->
        IF Cond(s, y)
        THEN LET ps == Push(s, pc2) IN
             Res([s EXCEPT !.pc = nn, !.wz = nn, !.sp = ps.sp], ops \o fetch2 \o N(pc1, 1) \o ps.ops)
        ELSE Res([s EXCEPT !.pc = pc2, !.wz = nn], ops \o fetch2)
    [] x = 3 /\ z = 5 ->
        IF qq = 0
        THEN LET ps == Push(s, GetRP2(s, p, m)) IN
             Res([s EXCEPT !.sp = ps.sp], ops \o N(IR(s), 1) \o ps.ops)
        ELSE \* p = 0: CALL nn (p = 1,2,3 are the prefixes, decoded before Main is reached)
             LET ps == Push(s, pc2) IN
             Res([s EXCEPT !.pc = nn, !.wz = nn, !.sp = ps.sp], ops \o fetch2 \o N(pc1, 1) \o ps.ops)
    [] x = 3 /\ z = 6 -> Res(DoAlu([s EXCEPT !.pc = pc1], y, n1), ops \o MR(s.pc, n1))
    [] x = 3 /\ z = 7 ->
        LET ps == Push(s, s.pc) IN
        Res([s EXCEPT !.pc = y * 8, !.wz = y * 8, !.sp = ps.sp], ops \o N(IR(s), 1) \o ps.ops)

\* ---- CB page (plain and indexed) ------------------------------------------------------
BitF(s, y, v, src53) ==
    LET zf == B2N(Bit(v, y) = 0) IN
    zf * FZ + zf * FP + FH + B2N(y = 7 /\ Bit(v, 7) = 1) * FS + F53(src53) + Flag(s, FC) * FC

CBOp(s, x, y, v) == \* result of RES / SET / rot on operand v (flags for rot only)
    CASE x = 0 -> Rot(y, v, Flag(s, FC))
      [] x = 2 -> [v |-> v - Bit(v, y) * Pow2(y), f |-> -1]
      [] x = 3 -> [v |-> v + (1 - Bit(v, y)) * Pow2(y), f |-> -1]

ExecCB(s0, env, ops0) ==
  LET op == Mem(env, s0.pc)
      s == [s0 EXCEPT !.pc = W16(s0.pc + 1), !.r = IncR(s0.r, 1), !.q = 0]
      ops == ops0 \o M1(s0.pc, op)
      x == op \div 64   y == (op \div 8) % 8   z == op % 8
  IN IF z = 6
     THEN LET a == HL(s)   v == Mem(env, a) IN
          IF x = 1 THEN Res(SetF(s, BitF(s, y, v, Hi(s.wz))), ops \o MR(a, v) \o N(a, 1))
          ELSE LET r == CBOp(s, x, y, v)
                   s2 == IF x = 0 THEN SetF(s, r.f) ELSE s
               IN Res(s2, ops \o MR(a, v) \o N(a, 1) \o MW(a, r.v))
     ELSE LET v == GetR(s, z, 0) IN
          IF x = 1 THEN Res(SetF(s, BitF(s, y, v, v)), ops)
          ELSE LET r == CBOp(s, x, y, v)
                   s2 == IF x = 0 THEN SetF(s, r.f) ELSE s
               IN Res(SetR(s2, z, 0, r.v), ops)

\* DD CB d op / FD CB d op: displacement and opcode are plain reads, R is not incremented again
ExecXYCB(s0, env, ops0, m) ==
  LET db == Mem(env, s0.pc)   pc1 == W16(s0.pc + 1)   op == Mem(env, pc1)
      a == W16(XY(s0, m) + SignExt(db) + 65536)
      s == [s0 EXCEPT !.pc = W16(s0.pc + 2), !.wz = a, !.q = 0]
      v == Mem(env, a)
      ops == ops0 \o MR(s0.pc, db) \o MR(pc1, op) \o N(pc1, 2) \o MR(a, v) \o N(a, 1)
      x == op \div 64   y == (op \div 8) % 8   z == op % 8
  IN IF x = 1 THEN Res(SetF(s, BitF(s, y, v, Hi(a))), ops)
     ELSE LET r == CBOp(s, x, y, v)
              s2 == IF x = 0 THEN SetF(s, r.f) ELSE s
              s3 == IF z = 6 THEN s2 ELSE SetR(s2, z, 0, r.v)   \* undocumented copy to a register
          IN Res(s3, ops \o MW(a, r.v))

\* ---- ED page -----------------------------------------------------------------------------
\* flags after one step of a block I/O instruction: b1 = B after decrement, v = byte moved,
\* k = v + ((C +- 1) mod 256) for input, v + L' for output
BlockIoF(b1, v, k) ==
    SZ53(b1) + Bit(v, 7) * FN + B2N(k > 255) * (FC + FH) + Parity(Xor8(k % 8, b1)) * FP

\* additional flag changes when INIR/INDR/OTIR/OTDR repeats (block-instruction flag research):
\*   TMP = B' + (NF ? -CF : CF);  HF = bit 4 of (TMP xor B');  PV = parity((k and 7) xor B' xor (TMP and 7))
\*   bits 5/3 come from the high byte of PC (address of the instruction)
BlockIoRepeatF(f, b1, k, pch) ==
    LET cf == f % 2   nf == Bit(f, 1)
        tmp == (IF nf = 1 THEN b1 + 256 - cf ELSE b1 + cf) % 256
        hf == Bit(Xor8(tmp, b1), 4)
        pv == Parity(Xor8(Xor8(k % 8, b1), tmp % 8))
    IN Bit(f, 7) * FS + Bit(f, 6) * FZ + nf * FN + cf * FC + hf * FH + pv * FP + F53(pch)

ExecED(s0, env, ops0) ==
  LET op == Mem(env, s0.pc)
      s == [s0 EXCEPT !.pc = W16(s0.pc + 1), !.r = IncR(s0.r, 1), !.q = 0]
      ops == ops0 \o M1(s0.pc, op)
      x == op \div 64   y == (op \div 8) % 8   z == op % 8   p == y \div 2   qq == y % 2
      n1 == Mem(env, s.pc)   n2 == Mem(env, W16(s.pc + 1))   nn == Mk16(n2, n1)
      pc2 == W16(s.pc + 2)
      fetch2 == MR(s.pc, n1) \o MR(W16(s.pc + 1), n2)
      c == Flag(s, FC)
      ipc == W16(s.pc + 65534)            \* address of the ED byte of this instruction
  IN
  CASE x = 1 /\ z = 0 ->
        LET v == PortIn(env, BC(s))
            s2 == IF y = 6 THEN s ELSE SetR(s, y, 0, v) IN
        Res(SetF([s2 EXCEPT !.wz = W16(BC(s) + 1)], SZ53P(v) + c * FC), ops \o IOR(BC(s), v))
    [] x = 1 /\ z = 1 ->
        Res([s EXCEPT !.wz = W16(BC(s) + 1)], ops \o IOW(BC(s), IF y = 6 THEN 0 ELSE GetR(s, y, 0)))
    [] x = 1 /\ z = 2 ->
        LET a == HL(s)   b == GetRP(s, p, 0) IN
        IF qq = 0
        THEN LET r == a - b - c   res == (r + 131072) % 65536
                 f == Bit(res, 15) * FS + B2N(res = 0) * FZ + F53(Hi(res))
                      + B2N((a % 4096) - (b % 4096) - c < 0) * FH
                      + B2N(Bit(a, 15) # Bit(b, 15) /\ Bit(res, 15) # Bit(a, 15)) * FP
                      + FN + B2N(r < 0) * FC
             IN Res(SetF([s EXCEPT !.h = Hi(res), !.l = Lo(res), !.wz = W16(a + 1)], f), ops \o N(IR(s), 7))
        ELSE LET r == a + b + c   res == r % 65536
                 f == Bit(res, 15) * FS + B2N(res = 0) * FZ + F53(Hi(res))
                      + B2N((a % 4096) + (b % 4096) + c >= 4096) * FH
                      + B2N(Bit(a, 15) = Bit(b, 15) /\ Bit(res, 15) # Bit(a, 15)) * FP
                      + B2N(r >= 65536) * FC
             IN Res(SetF([s EXCEPT !.h = Hi(res), !.l = Lo(res), !.wz = W16(a + 1)], f), ops \o N(IR(s), 7))
    [] x = 1 /\ z = 3 ->
        IF qq = 0
        THEN LET v == GetRP(s, p, 0) IN
             Res([s EXCEPT !.pc = pc2, !.wz = W16(nn + 1)],
                 ops \o fetch2 \o MW(nn, Lo(v)) \o MW(W16(nn + 1), Hi(v)))
        ELSE LET lo == Mem(env, nn)   hi == Mem(env, W16(nn + 1)) IN
             Res([SetRP(s, p, 0, Mk16(hi, lo)) EXCEPT !.pc = pc2, !.wz = W16(nn + 1)],
                 ops \o fetch2 \o MR(nn, lo) \o MR(W16(nn + 1), hi))
    [] x = 1 /\ z = 4 ->
        LET r == Sub8(0, s.a, 0) IN Res(SetF([s EXCEPT !.a = r.v], r.f), ops)
    [] x = 1 /\ z = 5 ->   \* RETN / RETI: IFF1 := IFF2
        LET lo == Mem(env, s.sp)   hi == Mem(env, W16(s.sp + 1))   a == Mk16(hi, lo) IN
        Res([s EXCEPT !.pc = a, !.wz = a, !.sp = W16(s.sp + 2), !.iff1 = s.iff2],
            ops \o MR(s.sp, lo) \o MR(W16(s.sp + 1), hi))
    [] x = 1 /\ z = 6 ->
        Res([s EXCEPT !.im = CASE y \in {0, 1, 4, 5} -> 0 [] y \in {2, 6} -> 1 [] y \in {3, 7} -> 2], ops)
    [] x = 1 /\ z = 7 ->
        ( CASE y = 0 -> Res([s EXCEPT !.i = s.a], ops \o N(IR(s), 1))
            [] y = 1 -> Res([s EXCEPT !.r = s.a], ops \o N(IR(s), 1))
            [] y = 2 -> Res(SetF([s EXCEPT !.a = s.i], SZ53(s.i) + s.iff2 * FP + c * FC), ops \o N(IR(s), 1))
            [] y = 3 -> Res(SetF([s EXCEPT !.a = s.r], SZ53(s.r) + s.iff2 * FP + c * FC), ops \o N(IR(s), 1))
            [] y = 4 -> \* RRD
                 LET v == Mem(env, HL(s))
                     a2 == (s.a \div 16) * 16 + (v % 16)
                     m2 == (s.a % 16) * 16 + (v \div 16)
                 IN Res(SetF([s EXCEPT !.a = a2, !.wz = W16(HL(s) + 1)], SZ53P(a2) + c * FC),
                        ops \o MR(HL(s), v) \o N(HL(s), 4) \o MW(HL(s), m2))
            [] y = 5 -> \* RLD
                 LET v == Mem(env, HL(s))
                     a2 == (s.a \div 16) * 16 + (v \div 16)
                     m2 == (v % 16) * 16 + (s.a % 16)
                 IN Res(SetF([s EXCEPT !.a = a2, !.wz = W16(HL(s) + 1)], SZ53P(a2) + c * FC),
                        ops \o MR(HL(s), v) \o N(HL(s), 4) \o MW(HL(s), m2))
            [] OTHER -> Res(s, ops) )
    [] x = 2 /\ z <= 3 /\ y >= 4 ->
       (LET inc == (y % 2 = 0)          \* LDI/CPI/INI/OUTI and their repeating forms
            rep == (y >= 6)
            stepw(w) == IF inc THEN W16(w + 1) ELSE W16(w + 65535)
            hl == HL(s)   de == DE(s)   bc == BC(s)
        IN
        CASE z = 0 ->   \* LDI LDD LDIR LDDR
              LET v == Mem(env, hl)
                  bc1 == W16(bc + 65535)
                  n == (v + s.a) % 256
                  f == Flag(s, FS) * FS + Flag(s, FZ) * FZ + c * FC + B2N(bc1 # 0) * FP
                       + Bit(n, 1) * F5 + Bit(n, 3) * F3
                  sm == [s EXCEPT !.b = Hi(bc1), !.c = Lo(bc1), !.h = Hi(stepw(hl)), !.l = Lo(stepw(hl)),
                                  !.d = Hi(stepw(de)), !.e = Lo(stepw(de))]
                  base == ops \o MR(hl, v) \o MW(de, v) \o N(de, 2)
              IN IF rep /\ bc1 # 0
                 THEN [s |-> [SetF(sm, f - (Bit(n, 1) * F5 + Bit(n, 3) * F3) + F53(Hi(ipc))) EXCEPT !.pc = ipc, !.wz = W16(ipc + 1)],
                       ops |-> base \o N(de, 5), qfree |-> TRUE]
                 ELSE Res(SetF(sm, f), base)
          [] z = 1 ->   \* CPI CPD CPIR CPDR
              LET v == Mem(env, hl)
                  bc1 == W16(bc + 65535)
                  r == (s.a + 256 - v) % 256
                  hf == B2N((s.a % 16) - (v % 16) < 0)
                  n == (r + 256 - hf) % 256
                  f == SZ(r) + hf * FH + B2N(bc1 # 0) * FP + FN + c * FC + Bit(n, 1) * F5 + Bit(n, 3) * F3
                  sm == [s EXCEPT !.b = Hi(bc1), !.c = Lo(bc1), !.h = Hi(stepw(hl)), !.l = Lo(stepw(hl)),
                                  !.wz = stepw(s.wz)]
                  base == ops \o MR(hl, v) \o N(hl, 5)
              IN IF rep /\ bc1 # 0 /\ r # 0
                 THEN [s |-> [SetF(sm, f - (Bit(n, 1) * F5 + Bit(n, 3) * F3) + F53(Hi(ipc))) EXCEPT !.pc = ipc, !.wz = W16(ipc + 1)],
                       ops |-> base \o N(hl, 5), qfree |-> TRUE]
                 ELSE Res(SetF(sm, f), base)
          [] z = 2 ->   \* INI IND INIR INDR
              LET v == PortIn(env, bc)
                  b1 == (s.b + 255) % 256
                  k == v + (IF inc THEN (s.c + 1) % 256 ELSE (s.c + 255) % 256)
                  f == BlockIoF(b1, v, k)
                  sm == [s EXCEPT !.b = b1, !.h = Hi(stepw(hl)), !.l = Lo(stepw(hl)), !.wz = stepw(bc)]
                  base == ops \o N(IR(s), 1) \o IOR(bc, v) \o MW(hl, v)
              IN IF rep /\ b1 # 0
                 THEN [s |-> [SetF(sm, BlockIoRepeatF(f, b1, k, Hi(ipc))) EXCEPT !.pc = ipc],
                       ops |-> base \o N(hl, 5), qfree |-> TRUE]
                 ELSE Res(SetF(sm, f), base)
          [] z = 3 ->   \* OUTI OUTD OTIR OTDR
              LET v == Mem(env, hl)
                  b1 == (s.b + 255) % 256
                  bc1 == Mk16(b1, s.c)
                  hl1 == stepw(hl)
                  k == v + Lo(hl1)
                  f == BlockIoF(b1, v, k)
                  sm == [s EXCEPT !.b = b1, !.h = Hi(hl1), !.l = Lo(hl1), !.wz = stepw(bc1)]
                  base == ops \o N(IR(s), 1) \o MR(hl, v) \o IOW(bc1, v)
              IN IF rep /\ b1 # 0
                 THEN [s |-> [SetF(sm, BlockIoRepeatF(f, b1, k, Hi(ipc))) EXCEPT !.pc = ipc],
                       ops |-> base \o N(bc1, 5), qfree |-> TRUE]
                 ELSE Res(SetF(sm, f), base) )
    [] OTHER -> Res(s, ops)       \* every undefined ED code: two-byte NOP (8 T, R + 2)

\* ---- one instruction or prefix fragment -----------------------------------------------------
Exec(s, env) ==
  LET pend == s.pfx # 0
      b1 == IF pend THEN s.pfx ELSE Mem(env, s.pc)
      ops1 == IF pend THEN <<>> ELSE M1(s.pc, b1)
      s1 == IF pend THEN [s EXCEPT !.pfx = 0, !.ei = 0]
            ELSE [s EXCEPT !.pc = W16(s.pc + 1), !.r = IncR(s.r, 1), !.ei = 0]
  IN CASE b1 \in {221, 253} ->
            LET m == IF b1 = 221 THEN 1 ELSE 2
                b2 == Mem(env, s1.pc)
                ops2 == ops1 \o M1(s1.pc, b2)
                s2 == [s1 EXCEPT !.pc = W16(s1.pc + 1), !.r = IncR(s1.r, 1)]
            IN IF b2 \in {221, 237, 253}
               \* the second prefix is remembered; no interrupt may be accepted before the opcode
               THEN [s |-> [s2 EXCEPT !.pfx = b2, !.ei = 1], ops |-> ops2, qfree |-> TRUE]
               ELSE IF b2 = 203 THEN ExecXYCB(s2, env, ops2, m)
               ELSE Main(s2, env, ops2, b2, m, s.q)
       [] b1 = 203 -> ExecCB(s1, env, ops1)
       [] b1 = 237 -> ExecED(s1, env, ops1)
       [] OTHER -> Main(s1, env, ops1, b1, 0, s.q)

\* ---- interrupt acknowledge -------------------------------------------------------------------
\* Returns the state after the acknowledge, its bus operations (canonical order: pushes, bus byte,
\* vector reads; the waiting T-states are given as one "int" entry because only their total is
\* documented) and the memory overlay of the two bytes pushed.
\* bytes pushed by an acknowledge are visible to the rest of the call - unless the machine says that
\* the low part of the address space is ROM (env.romtop), where writes have no effect
\* ... and, when the machine maps one RAM bank into two windows (128K: bank 2 or 5 paged at 0xC000; env.alias names the
\* bank), a byte written through one window is read back through the other
AliasOf(env, a) ==
    IF "alias" \notin DOMAIN env THEN -1
    ELSE LET lo == IF env.alias = 2 THEN 32768 ELSE IF env.alias = 5 THEN 16384 ELSE -1 IN
         IF lo < 0 THEN -1
         ELSE IF a >= lo /\ a < lo + 16384 THEN 49152 + (a - lo)
         ELSE IF a >= 49152 THEN lo + (a - 49152)
         ELSE -1
Overlay(env, wr) ==
    LET w == IF "romtop" \in DOMAIN env THEN SelectSeq(wr, LAMBDA p : p[1] >= env.romtop) ELSE wr
        RECURSIVE Both(_)
        Both(q) == IF q = <<>> THEN <<>>
                   ELSE LET h == Head(q)   al == AliasOf(env, h[1])
                        IN (IF al >= 0 THEN << h, <<al, h[2]>> >> ELSE << h >>) \o Both(Tail(q))
    IN [env EXCEPT !.poke = Both(w) \o env.poke]
Unhalt(s) == IF s.halted = 1 THEN [s EXCEPT !.halted = 0, !.pc = W16(s.pc + 1)] ELSE s

NmiAck(s) ==
    LET u == Unhalt(s)   ps == Push(u, u.pc) IN
    [s |-> [u EXCEPT !.iff1 = 0, !.sp = ps.sp, !.pc = 102, !.wz = 102, !.r = IncR(u.r, 1), !.q = 0],
     ops |-> << <<"int", 0, 5>> >> \o ps.ops,
     wr |-> << <<W16(u.sp + 65535), Hi(u.pc)>>, <<W16(u.sp + 65534), Lo(u.pc)>> >>]

IntAck(s, env) ==
    LET u == Unhalt(s)   ps == Push(u, u.pc)
        wr == << <<W16(u.sp + 65535), Hi(u.pc)>>, <<W16(u.sp + 65534), Lo(u.pc)>> >>
        base == [u EXCEPT !.iff1 = 0, !.iff2 = 0, !.sp = ps.sp, !.r = IncR(u.r, 1), !.q = 0]
    IN IF s.im = 2
       THEN LET va == Mk16(s.i, env.busbyte)
                env2 == Overlay(env, wr)
                lo == Mem(env2, va)   hi == Mem(env2, W16(va + 1))   t == Mk16(hi, lo)
            IN [s |-> [base EXCEPT !.pc = t, !.wz = t],
                ops |-> << <<"int", 0, 7>> >> \o ps.ops \o << <<"iack", 0, env.busbyte>> >>
                        \o MR(va, lo) \o MR(W16(va + 1), hi),
                wr |-> wr]
       ELSE [s |-> [base EXCEPT !.pc = 56, !.wz = 56],
             ops |-> << <<"int", 0, 7>> >> \o ps.ops, wr |-> wr]

\* ---- one emulate() call ------------------------------------------------------------------------
\* The set of allowed outcomes. It is a singleton except for NMI directly after EI/DI, where the
\* statement constrains only maskable interrupts (both accepting and postponing are allowed).
NoAck(s) == [s |-> s, ops |-> <<>>, wr |-> <<>>]
Finish(a, env, kind) ==
    LET env2 == Overlay(env, a.wr)
        e == Exec(a.s, env2)
    IN [s |-> e.s, ack |-> a.ops, ops |-> e.ops, qfree |-> e.qfree, acked |-> kind, mid |-> a.s]

Outcomes(s, env) ==
    IF s.pfx # 0 THEN {Finish(NoAck(s), env, "none")}                 \* between prefix and opcode: never
    ELSE IF s.ei = 1
    THEN {Finish(NoAck(s), env, "none")}
         \cup (IF env.nmi THEN {Finish(NmiAck(s), env, "nmi")} ELSE {})
    ELSE IF env.nmi THEN {Finish(NmiAck(s), env, "nmi")}
    ELSE IF env.int /\ s.iff1 = 1 THEN {Finish(IntAck(s, env), env, "int")}
    ELSE {Finish(NoAck(s), env, "none")}

\* ---- comparison with an observed call -----------------------------------------------------------
\* Acknowledge cycles: the data operations and their memory cycles must appear in order, and the
\* total number of T-states must be the documented one (13 / 19 / 11).
IsWait(o) == o[1] \in {"int", "nomreq"}
RECURSIVE DropWaits(_), Clk(_)
DropWaits(ops) == IF ops = <<>> THEN <<>>
                  ELSE IF IsWait(Head(ops)) THEN DropWaits(Tail(ops))
                  ELSE <<Head(ops)>> \o DropWaits(Tail(ops))
Clk(ops) == IF ops = <<>> THEN 0
            ELSE (IF Head(ops)[1] \in {"mreq", "nomreq", "int"} THEN Head(ops)[3] ELSE 0) + Clk(Tail(ops))
\* total T-states of a list of operations when nothing is contended (port cycles take 4)
RECURSIVE Tstates(_)
Tstates(ops) == IF ops = <<>> THEN 0
                ELSE (CASE Head(ops)[1] \in {"mreq", "nomreq", "int"} -> Head(ops)[3]
                        [] Head(ops)[1] \in {"in", "out"} -> 4
                        [] OTHER -> 0) + Tstates(Tail(ops))

IsData(o) == o[1] \in {"rd", "wr", "in", "out", "iack"}
RECURSIVE DataOnly(_)
DataOnly(ops) == IF ops = <<>> THEN <<>>
                 ELSE IF IsData(Head(ops)) THEN <<Head(ops)>> \o DataOnly(Tail(ops))
                 ELSE DataOnly(Tail(ops))

StateFields == {"a", "f", "b", "c", "d", "e", "h", "l", "af_", "bc_", "de_", "hl_", "ix", "iy", "sp", "pc",
                "i", "r", "iff1", "iff2", "im", "wz", "q", "halted", "ei", "pfx"}
Diff(x, y, fields) == {k \in fields : x[k] # y[k]}

\* does outcome o explain the observed post-state and bus log?
Explains(o, post, obs) ==
    LET nack == Len(obs) - Len(o.ops) IN
    /\ nack >= 0
    /\ Diff(o.s, post, IF o.qfree THEN StateFields \ {"q"} ELSE StateFields) = {}
    /\ SubSeq(obs, nack + 1, Len(obs)) = o.ops
    /\ LET oa == SubSeq(obs, 1, nack) IN
       /\ DropWaits(oa) = DropWaits(o.ack)
       /\ Clk(oa) = Clk(o.ack)
=============================================================================
