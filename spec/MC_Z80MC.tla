------------------------------ MODULE MC_Z80MC ------------------------------
EXTENDS Z80MC
\* three ROMs; addresses are taken modulo 16: 0x38 -> 8, 0x66 -> 6, 0xFF -> 15, 0x100 -> 0
\* A: EI, HALT, prefixes in front of EI/NOP, DI, RETN, IM 2 ...
RomA == <<251, 118, 221, 253, 0, 243, 237, 69, 251, 237, 94, 118, 221, 237, 77, 0>>
\* B: IM 2 with vector table inside the ROM, EI; HALT loops, RETI, chains of prefixes
RomB == <<237, 94, 251, 221, 221, 253, 60, 118, 237, 77, 243, 251, 251, 118, 253, 118>>
\* C: IM 1, LD A,I / LD A,R around EI/DI, JR back
RomC == <<237, 86, 251, 237, 87, 243, 237, 95, 251, 0, 118, 24, 254, 237, 125, 251>>
=============================================================================
