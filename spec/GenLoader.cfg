
