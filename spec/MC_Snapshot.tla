----------------------------- MODULE MC_Snapshot -----------------------------
(* C13 on the specification alone: SnaDecode(SnaEncode(d)) = d on every field the *)
(* format carries, for machine descriptions over tiny pages - every latch value,  *)
(* both machines, SP anywhere in RAM (including the wrap at the top of memory),   *)
(* and a file for the other model decodes to Err.                               *)
EXTENDS Snapshot, FiniteSets

Vals == {0, 1, 255}
\* one pseudo-random register file per (a, b) pair keeps the state space small but varied
Cpu(a, b, sp, pc) == [af |-> a * 256 + b, bc |-> b * 256 + a, de |-> 4660 + a, hl |-> 43981 - b, af_ |-> 258 * a % 65536,
                      bc_ |-> 772 + b, de_ |-> 1286 + a, hl_ |-> 65535 - a, ix |-> 4369 + b, iy |-> 8738 + a,
                      sp |-> sp, pc |-> pc, i |-> a, r |-> b, iff1 |-> a % 2, iff2 |-> a % 2, im |-> b % 3]
Ram(seed) == [bk \in 0..7 |-> [o \in 0..(PAGE - 1) |-> (bk * 7 + o * 3 + seed) % 256]]

Descs48 == {[m |-> 48, cpu |-> Cpu(a, b, sp, pc), border |-> a % 8, latch |-> 0, ram |-> [bk \in {5, 2, 0} |-> Ram(b)[bk]]] :
              a \in Vals, b \in Vals, sp \in (PAGE + 2)..(4 * PAGE - 1) \cup {PAGE, PAGE + 1}, pc \in {0, 513, 65535}}
Descs128 == {[m |-> 128, cpu |-> Cpu(a, b, sp, pc), border |-> b % 8, latch |-> lt, ram |-> Ram(a)] :
              a \in Vals, b \in Vals, sp \in {0, 2 * PAGE, 4 * PAGE - 1}, pc \in {0, 513}, lt \in 0..255}

Carried(x, y) == /\ \A k \in SnaCpuFields : x.cpu[k] = y.cpu[k]
                 /\ x.border = y.border /\ x.latch = y.latch /\ x.m = y.m
\* 48K: the two bytes below SP are overwritten by PC in the image (the statement's proviso)
RamEq48(x, y) ==
    LET sp2 == (x.cpu.sp + 4 * PAGE - 2) % (4 * PAGE) IN
    \A w \in 1..3, o \in 0..(PAGE - 1) :
        LET a == w * PAGE + o IN
        (a = sp2 \/ a = (sp2 + 1) % (4 * PAGE)) \/ x.ram[WinBank48(w)][o] = y.ram[WinBank48(w)][o]

\* SP-2 and SP-1 must lie in RAM for the 48K round trip (proviso of the statement)
StackInRam(d) == LET sp2 == (d.cpu.sp + 4 * PAGE - 2) % (4 * PAGE) IN sp2 >= PAGE /\ (sp2 + 1) % (4 * PAGE) >= PAGE

ASSUME \A d \in Descs48 : StackInRam(d) =>
          LET r == SnaDecode(SnaEncode(d), 48) IN ~IsErr(r) /\ Carried(d, r) /\ RamEq48(d, r)
ASSUME \A d \in Descs128 :
          LET r == SnaDecode(SnaEncode(d), 128) IN ~IsErr(r) /\ Carried(d, r) /\ r.ram = d.ram
ASSUME \A d \in Descs128 : IsErr(SnaDecode(SnaEncode(d), 48))
ASSUME \A d \in Descs48 : IsErr(SnaDecode(SnaEncode(d), 128))
\* file sizes of the format: 49179; 131103; 147487 when bank 5 or 2 is paged at the top
ASSUME PAGE = 16384 => (Sna48Len = 49179)
ASSUME \A d \in Descs128 : Sna128Len(d) = 27 + 3 * PAGE + 4 + (IF d.latch % 8 \in {5, 2} THEN 6 ELSE 5) * PAGE
ASSUME PrintT(<<"CASES", Cardinality(Descs48) * 2 + Cardinality(Descs128) * 3>>)
=============================================================================
