SPECIFICATION GSpec
CONSTANTS
  ROM <- RomB
  Depth = 7
INVARIANT Emit
CHECK_DEADLOCK FALSE
