SPECIFICATION Spec
CONSTANTS
  Depth = 4
  Devs = {}
INVARIANT Refines
CHECK_DEADLOCK FALSE
