------------------------------- MODULE Input -------------------------------
(* C17: keyboard matrix, compound keys, Sinclair and Kempston joysticks and   *)
(* the Kempston mouse.                                                        *)
(* Statement-shaped: sets of controls currently held per source; a matrix     *)
(* bit reads 0 iff some source holds a key at that position.                  *)
(* Implementation-shaped: three 8-byte matrices (plain keys, compound layer,  *)
(* Sinclair layer) AND-ed on read, a modifier mask for the compound layer,    *)
(* a Kempston byte and three mouse port bytes.                                *)
EXTENDS Bits, FiniteSets, TLC

\* a matrix position is <<row, bit>>; key id k = row * 5 + bit  (row 0 = 0xFEFE .. row 7 = 0x7FFE)
Pos(k) == <<k \div 5, k % 5>>
\* half-rows, bit 0 -> 4:  0 CAPS Z X C V | 1 A S D F G | 2 Q W E R T | 3 1 2 3 4 5 | 4 0 9 8 7 6
\*                         5 P O I U Y | 6 ENTER L K J H | 7 SPACE SYM M N B
CAPS == <<0, 0>>
K1 == <<3, 0>>  K2 == <<3, 1>>  K3 == <<3, 2>>  K4 == <<3, 3>>  K5 == <<3, 4>>
K0 == <<4, 0>>  K9 == <<4, 1>>  K8 == <<4, 2>>  K7 == <<4, 3>>  K6 == <<4, 4>>
SPACE == <<7, 0>>

\* compound keys 0..6 = ArrowLeft ArrowRight ArrowUp ArrowDown CapsLock Delete Break: CAPS SHIFT + key
CompoundPrimary == <<K5, K8, K7, K6, K2, K0, SPACE>>
\* Sinclair directions 0..4 = Left Right Up Down Fire
\* "joystick 1 is keys 6,7,8,9,0 and joystick 2 keys 1,2,3,4,5 for left,right,down,up,fire"
Sinclair(j, d, devs) ==
    IF j = 1 THEN <<K6, K7, K9, K8, K0>>[d + 1]
    ELSE IF d = 3 /\ "sinclair2down" \in devs THEN K2          \* named deviation: joystick 2 down -> key 2
    ELSE <<K1, K2, K4, K3, K5>>[d + 1]

\* ---- statement-shaped ------------------------------------------------------------------
\* st = [keys, ckeys, sjoy (set of <<j,d>>), kjoy (set of bit numbers), mb (set of buttons), wheel, mx, my]
StInit == [keys |-> {}, ckeys |-> {}, sjoy |-> {}, kjoy |-> {}, mb |-> {}, wheel |-> 15, mx |-> 255, my |-> 255]

HeldPositions(st, devs) ==
    {Pos(k) : k \in st.keys}
    \cup (IF st.ckeys = {} THEN {} ELSE {CAPS})            \* "CAPS SHIFT is released only with the last held compound key"
    \cup {CompoundPrimary[c + 1] : c \in st.ckeys}
    \cup {Sinclair(jd[1], jd[2], devs) : jd \in st.sjoy}

\* bits 0..4 of one half-row: 0 exactly where something is held
RowBits(st, devs, row) ==
    LET held == HeldPositions(st, devs) IN
    (IF <<row, 0>> \in held THEN 0 ELSE 1) + (IF <<row, 1>> \in held THEN 0 ELSE 2)
    + (IF <<row, 2>> \in held THEN 0 ELSE 4) + (IF <<row, 3>> \in held THEN 0 ELSE 8)
    + (IF <<row, 4>> \in held THEN 0 ELSE 16)
\* "several selected half-rows are AND-ed": sel = high byte of the port, a 0 bit selects the row
RECURSIVE AndRows(_, _, _, _)
AndRows(st, devs, sel, row) ==
    IF row = 8 THEN 31
    ELSE LET rest == AndRows(st, devs, sel, row + 1) IN
         IF Bit(sel, row) = 0 THEN And8(RowBits(st, devs, row), rest) ELSE rest
KeyBits(st, devs, sel) == AndRows(st, devs, sel, 0)

\* "The Kempston joystick port reads the OR of the held right/left/down/up/fire(/extra) bits"
RECURSIVE SumBits(_)
SumBits(S) == IF S = {} THEN 0 ELSE LET b == CHOOSE x \in S : TRUE IN Pow2(b) + SumBits(S \ {b})
KempstonByte(st) == SumBits(st.kjoy)
\* "buttons active-low, a 4-bit wheel counter, and 8-bit X/Y counters that add the horizontal and
\*  subtract the vertical host delta modulo 256"
MouseButtons(st) == st.wheel * 16 + (15 - SumBits(st.mb))

StEvent(st, e) ==
    CASE e.ev = "key"  -> [st EXCEPT !.keys = IF e.p THEN @ \cup {e.k} ELSE @ \ {e.k}]
      [] e.ev = "ckey" -> [st EXCEPT !.ckeys = IF e.p THEN @ \cup {e.k} ELSE @ \ {e.k}]
      [] e.ev = "sjoy" -> [st EXCEPT !.sjoy = IF e.p THEN @ \cup {<<e.j, e.d>>} ELSE @ \ {<<e.j, e.d>>}]
      [] e.ev = "kjoy" -> [st EXCEPT !.kjoy = IF e.p THEN @ \cup {e.b} ELSE @ \ {e.b}]
      [] e.ev = "mbtn" -> [st EXCEPT !.mb = IF e.p THEN @ \cup {e.b} ELSE @ \ {e.b}]
      [] e.ev = "mwheel" -> [st EXCEPT !.wheel = (@ + 16 + e.d) % 16]
      [] e.ev = "mmove" -> [st EXCEPT !.mx = (@ + 256 + e.x) % 256, !.my = (@ + 256 - e.y) % 256]

\* ---- implementation-shaped ----------------------------------------------------------------
ImInit == [kb |-> [r \in 0..7 |-> 255], ext |-> [r \in 0..7 |-> 255], sinc |-> [r \in 0..7 |-> 255],
           capsMask |-> {}, kemp |-> 0, mbtn |-> 255, mx |-> 255, my |-> 255]
Clr(byte, bit) == byte - Bit(byte, bit) * Pow2(bit)
Set(byte, bit) == byte + (1 - Bit(byte, bit)) * Pow2(bit)
PressIn(mat, pos, p) == [mat EXCEPT ![pos[1]] = IF p THEN Clr(@, pos[2]) ELSE Set(@, pos[2])]

ImEvent(im, e, devs) ==
    CASE e.ev = "key"  -> [im EXCEPT !.kb = PressIn(@, Pos(e.k), e.p)]
      [] e.ev = "sjoy" -> [im EXCEPT !.sinc = PressIn(@, Sinclair(e.j, e.d, devs), e.p)]
      [] e.ev = "ckey" ->
            IF e.p THEN [im EXCEPT !.capsMask = @ \cup {e.k},
                                   !.ext = PressIn(PressIn(@, CompoundPrimary[e.k + 1], TRUE), CAPS, TRUE)]
            ELSE LET m2 == im.capsMask \ {e.k}
                     x1 == IF m2 = {} THEN PressIn(im.ext, CAPS, FALSE) ELSE im.ext
                 IN [im EXCEPT !.capsMask = m2, !.ext = PressIn(x1, CompoundPrimary[e.k + 1], FALSE)]
      [] e.ev = "kjoy" -> [im EXCEPT !.kemp = IF e.p THEN Set(@, e.b) ELSE Clr(@, e.b)]
      [] e.ev = "mbtn" -> [im EXCEPT !.mbtn = IF e.p THEN Clr(@, e.b) ELSE Set(@, e.b)]
      [] e.ev = "mwheel" -> [im EXCEPT !.mbtn = (@ % 16) + 16 * (((@ \div 16) + 16 + e.d) % 16)]
      [] e.ev = "mmove" -> [im EXCEPT !.mx = (@ + 256 + e.x) % 256, !.my = (@ + 256 - e.y) % 256]

RECURSIVE ImAndRows(_, _, _)
ImAndRows(im, sel, row) ==
    IF row = 8 THEN 255
    ELSE LET rest == ImAndRows(im, sel, row + 1) IN
         IF Bit(sel, row) = 0 THEN And8(And8(And8(im.kb[row], im.ext[row]), im.sinc[row]), rest) ELSE rest
ImKeyBits(im, sel) == ImAndRows(im, sel, 0) % 32
=============================================================================
