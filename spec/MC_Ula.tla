------------------------------- MODULE MC_Ula -------------------------------
(* Spec-only checks for C04/C05.                                               *)
(* 1. constant level, exhaustive on the real constants: implementation-shaped  *)
(*    delay and frame length equal the statement's for every T of the frame.   *)
(* 2. a small behaviour model of the clock: arbitrary instruction lengths      *)
(*    (1..23 T, the longest uncontended instruction) from every start offset;  *)
(*    time is conserved across the wrap and INT is seen exactly once per frame *)
(*    by a program that polls at every instruction boundary with a handler     *)
(*    longer than the pulse.                                                   *)
EXTENDS Ula

ASSUME \A m \in {48, 128} : Specs(m).frame = Frame(m)
ASSUME \A m \in {48, 128} : \A T \in 0..(Frame(m) - 1) : DelayImpl(m, T) = Delay(m, T)
ASSUME \A m \in {48, 128} : \A T \in 0..(Frame(m) - 1) : IntActive(m, T) <=> T < Specs(m).intLen
\* the delay pattern never pushes a cycle past the end of the contended stretch by more than its length
ASSUME \A m \in {48, 128} : \A T \in 0..(Frame(m) - 1) : Delay(m, T) > 0 => Delay(m, T + Delay(m, T)) = 0

CONSTANTS M, Steps
VARIABLES st, total, ints, inHandler
vars == <<st, total, ints, inHandler>>

Init == st = [t |-> 0, frames |-> 0] /\ total = 0 /\ ints = 0 /\ inHandler = 0

\* an instruction of d T-states; interrupts are enabled unless the handler (35 T) is running
Next ==
    /\ st.frames < 2
    /\ \E d \in Steps :
        LET acc == inHandler = 0 /\ IntActive(M, st.t)
            cost == IF acc THEN 13 + 35 ELSE d
        IN /\ st' = Tick(M, st, cost)
           /\ total' = total + cost
           /\ ints' = IF acc THEN ints + 1 ELSE ints
           /\ inHandler' = 0
Spec == Init /\ [][Next]_vars

\* "after any number of frames the total executed T-states equal frames x frame length plus the current in-frame offset"
Conservation == total = st.frames * Frame(M) + st.t
\* "interrupted exactly once per frame at the frame start"
OncePerFrame == ints \in {st.frames, st.frames + 1} /\ (st.t >= 32 + 23 => ints = st.frames + 1)
InFrame == st.t < Frame(M)
=============================================================================
