-------------------------------- MODULE Loader --------------------------------
(* C15: structure of the loaders' inputs. Totality over all byte strings is not a  *)
(* model-checking statement; what the specification contributes is                 *)
(*  (1) the walkers of the chunked formats as little state machines with a         *)
(*      progress measure (every loop pass consumes input or stops), checked by TLC *)
(*      on all abstract inputs of a few tokens, and                                *)
(*  (2) the exhaustive catalogue of malformed shapes per format (size fields       *)
(*      against the real remainder, field values outside their domain, truncation  *)
(*      at every boundary), which TLC enumerates into vectors that the harness     *)
(*      turns into bytes and feeds to the real loaders, also with an asset that    *)
(*      fails at every request index.                                              *)
EXTENDS Integers, Sequences, FiniteSets, TLC

\* ---- (1) walkers ---------------------------------------------------------------------------
\* SZX / TAP style: header of H tokens that declares a payload of `size` tokens, repeated.
\* w = [pos, steps, out]; input = [len |-> tokens in the file, sizes |-> declared size of the chunk starting at a position]
WalkInit == [pos |-> 0, steps |-> 0, out |-> "running"]
WalkStep(H, len, sizeAt, w) ==
    IF w.pos + H > len THEN [w EXCEPT !.out = "ok", !.steps = @ + 1]                    \* no further header: done
    ELSE IF w.pos + H + sizeAt[w.pos] > len THEN [w EXCEPT !.out = "err", !.steps = @ + 1] \* payload runs off the end
    ELSE [w EXCEPT !.pos = @ + H + sizeAt[w.pos], !.steps = @ + 1]

\* VTX string table: read up to B tokens at a time, count terminators until five were seen.
\* EofStops = the loop ends when a read returns nothing.
ScanInit == [pos |-> 0, nul |-> 0, steps |-> 0, out |-> "running"]
ScanStep(B, data, EofStops, s) ==
    LET n == IF Len(data) - s.pos < B THEN Len(data) - s.pos ELSE B
        chunk == SubSeq(data, s.pos + 1, s.pos + n)
        found == Cardinality({i \in DOMAIN chunk : chunk[i] = 0})
        nul2 == IF s.nul + found > 5 THEN 5 ELSE s.nul + found
    IN IF s.nul = 5 THEN [s EXCEPT !.out = "ok"]
       ELSE IF n = 0 /\ EofStops THEN [s EXCEPT !.out = "err", !.steps = @ + 1]
       ELSE [s EXCEPT !.pos = @ + n, !.nul = nul2, !.steps = @ + 1]

\* ---- (2) catalogue of shapes -----------------------------------------------------------------
SnaShapes ==
    [fmt : {"sna"}, size : {0, 1, 26, 27, 49178, 49179, 49180, 49183, 131102, 131103, 131104, 147487, 147488, 200000},
     im : {0, 2, 3, 255}, border : {0, 7, 8, 255}, latch : {0, 5, 32, 255}]
\* chunk = [id, decl (declared size: "exact", "short1", "zero", "over", "huge"), var (variant of the contents)]
SzxChunkIds == {"Z80R", "SPCR", "RAMP", "AY", "KEYB", "AMXM", "CRTR", "JUNK", "nonutf8", "z80r"}
\* RAMP variants: page numbers 5, 8, 255, 2 (compressed, short stream), 3, 7: the first page missing on either model,
\* the last present one, and far out of range
\* ... and pages whose zlib stream inflates to one byte more than a page (6), to more than 64 KiB (7), to 16 MiB (8: a
\* stream of a few KiB - a loader that inflates first and checks afterwards asks for memory out of all proportion)
VarMax(i) == IF i = "RAMP" THEN 8 ELSE 3
SzxChunks == UNION {[id : {i}, decl : {"exact", "short1", "zero", "over", "huge"}, var : 0..VarMax(i)] : i \in SzxChunkIds}
SzxShapes1 == [fmt : {"szx"}, magic : {"ok", "bad", "nonutf8", "short"}, mid : {0, 1, 2, 3, 255}, chunks : {<<>>}]
               \cup [fmt : {"szx"}, magic : {"ok"}, mid : {1, 2}, chunks : {<<c>> : c \in SzxChunks}]
\* pairs of chunks: a good Z80R or RAMP first, anything second (order effects, cursor arithmetic after a chunk)
SzxShapes2 == [fmt : {"szx"}, magic : {"ok"}, mid : {1, 2},
               chunks : {<<[id |-> i, decl |-> "exact", var |-> 0], c>> : i \in {"Z80R", "RAMP"}, c \in SzxChunks}]
TapBlocks == [decl : {0, 1, 2, 19, 300, 65535}, have : {"all", "none", "one", "half"}]
\* (a good block first - a header, or one longer than the player's 128-byte window - then anything)
TapShapes == [fmt : {"tap"}, blocks : {<<>>} \cup {<<b>> : b \in TapBlocks} \cup {<<[decl |-> 19, have |-> "all"], b>> : b \in TapBlocks}
                                     \cup {<<[decl |-> 300, have |-> "all"], b>> : b \in TapBlocks},
              tail : {0, 1}]
ScrShapes == [fmt : {"scr"}, size : {0, 1, 6911, 6912, 6913, 49179}]
RomShapes == [fmt : {"rom"}, pages : {0, 1, 2, 3}, last : {0, 1, 16383, 16384}]
VtxShapes == [fmt : {"vtx"}, id : {"ay", "ym", "zz", "a"}, stereo : {0, 6, 7, 255}, pfreq : {0, 50, 255},
              size : {0, 14, 15, 1400, -1}, strings : {0, 3, 5, 6}, body : {"none", "garbage", "valid"}]
GzipShapes == [fmt : {"gzip"}, kind : {"valid", "badmagic", "truncated", "badcrc", "empty", "bomb"}, inner : {"sna48", "tap", "junk"}]

AllShapes == SnaShapes \cup SzxShapes1 \cup SzxShapes2 \cup TapShapes \cup ScrShapes \cup RomShapes \cup VtxShapes \cup GzipShapes
=============================================================================
