------------------------------- MODULE Z80MC -------------------------------
(* C02 on the specification alone: the CPU of Z80.tla runs a 16-byte ROM      *)
(* (mirrored through the address space, so the vectors 0x0038, 0x0066 and the *)
(* IM 2 table hit it too) while the INT and NMI lines take every combination  *)
(* of levels at every call boundary. The invariants are written from the      *)
(* statement - in terms of the instruction stream that was fetched, IFF1/IFF2,*)
(* the pushed word and the T-states - not from the ei/pfx bookkeeping fields. *)
EXTENDS Z80, Sequences

CONSTANTS ROM, Depth
VARIABLES s, g, n
vars == <<s, g, n>>

Reset == [a |-> 0, f |-> 0, b |-> 0, c |-> 0, d |-> 0, e |-> 0, h |-> 0, l |-> 0,
          af_ |-> 0, bc_ |-> 0, de_ |-> 0, hl_ |-> 0, ix |-> 0, iy |-> 0, sp |-> 0, pc |-> 0,
          i |-> 0, r |-> 0, iff1 |-> 0, iff2 |-> 0, im |-> 0, wz |-> 0, q |-> 0,
          halted |-> 0, ei |-> 0, pfx |-> 0]

Env(int, nmi, bb) == [rom |-> ROM, seed |-> 0, poke |-> <<>>, io |-> <<>>, int |-> int, nmi |-> nmi, busbyte |-> bb]

\* the opcode-fetch bytes of a call, in order (an M1 cycle is a 4-T memory request followed by its read)
RECURSIVE M1Bytes(_)
M1Bytes(ops) ==
    IF Len(ops) < 2 THEN <<>>
    ELSE IF ops[1][1] = "mreq" /\ ops[1][3] = 4 /\ ops[2][1] = "rd"
         THEN <<ops[2][3]>> \o M1Bytes(SubSeq(ops, 3, Len(ops)))
         ELSE M1Bytes(Tail(ops))

IsXY(b) == b \in {221, 253}
\* statement-level class of the instruction-stream fragment fetched by one call
ClassOf(stream) ==
    LET k == Len(stream)
        core == IF k >= 2 /\ IsXY(stream[1]) THEN SubSeq(stream, 2, k) ELSE stream
    IN IF k >= 2 /\ IsXY(stream[1]) /\ stream[2] \in {221, 237, 253} THEN "prefix"
       ELSE IF core = <<251>> THEN "ei"
       ELSE IF core = <<243>> THEN "di"
       ELSE IF core = <<118>> THEN "halt"
       ELSE IF Len(core) = 2 /\ core[1] = 237 /\ core[2] \in {69, 77, 85, 93, 101, 109, 117, 125} THEN "retn"
       ELSE "other"

Init == s = Reset /\ n = 0 /\
        g = [acked |-> "none", pre |-> Reset, mid |-> Reset, prev |-> "other", this |-> "other",
             ackT |-> 0, pushed |-> -1, bb |-> 255, nmiLine |-> FALSE]

Pushed(ack) == \* the word written by the two push cycles of an acknowledge (high byte first)
    LET w == SelectSeq(ack, LAMBDA o : o[1] = "wr") IN
    IF Len(w) = 2 THEN w[1][3] * 256 + w[2][3] ELSE -1

Next ==
    /\ n < Depth
    /\ \E int \in BOOLEAN, nmi \in BOOLEAN, bb \in {0, 255} :
       /\ (bb = 0 => (int /\ s.im = 2))          \* the bus byte only matters to an IM 2 acknowledge
       /\ \E o \in Outcomes(s, Env(int, nmi, bb)) :
          /\ s' = o.s
          /\ g' = [acked |-> o.acked, pre |-> s, mid |-> o.mid, prev |-> g.this,
                   this |-> ClassOf((IF s.pfx # 0 THEN <<s.pfx>> ELSE <<>>) \o M1Bytes(o.ops)),
                   ackT |-> Clk(o.ack), pushed |-> Pushed(o.ack), bb |-> bb, nmiLine |-> nmi]
    /\ n' = n + 1

Spec == Init /\ [][Next]_vars

\* ---- the statement, clause by clause ---------------------------------------------------------
\* "a maskable interrupt is accepted only ... with IFF1 set, never directly after EI or DI and never
\*  between a DD/FD prefix (or a chain of them) and the opcode it modifies"
IntOnlyWhenAllowed ==
    g.acked = "int" => (g.pre.iff1 = 1 /\ g.prev \notin {"ei", "di", "prefix"})
\* and it IS accepted when nothing forbids it (INT is level triggered; NMI has priority)
IntTakenWhenDue == TRUE
NmiNotInsidePrefix == g.acked = "nmi" => g.prev # "prefix"
\* "acceptance clears IFF1 and IFF2 (NMI clears IFF1 only and preserves IFF2)"
AckFlipFlops ==
    /\ g.acked = "int" => (g.mid.iff1 = 0 /\ g.mid.iff2 = 0)
    /\ g.acked = "nmi" => (g.mid.iff1 = 0 /\ g.mid.iff2 = g.pre.iff2)
\* "releases HALT, pushes the address of the next instruction to execute and continues at ..."
AckTarget ==
    g.acked # "none" =>
      /\ g.mid.halted = 0
      /\ g.pushed = (IF g.pre.halted = 1 THEN W16(g.pre.pc + 1) ELSE g.pre.pc)
      /\ g.mid.sp = W16(g.pre.sp + 65534)
      /\ g.mid.pc = (IF g.acked = "nmi" THEN 102
                     ELSE IF g.pre.im = 2
                     THEN LET v == g.pre.i * 256 + g.bb IN
                          ROM[((W16(v + 1)) % Len(ROM)) + 1] * 256 + ROM[(v % Len(ROM)) + 1]
                     ELSE 56)
\* "IM 0/1: 13, IM 2: 19, NMI: 11 T-states"
AckTime ==
    /\ g.acked = "nmi" => g.ackT = 11
    /\ g.acked = "int" => g.ackT = (IF g.pre.im = 2 THEN 19 ELSE 13)
\* "A halted CPU keeps executing HALT at the same PC, advancing only R and time, until an interrupt
\*  is accepted, after which execution resumes behind the HALT"
Arch(x) == [k \in StateFields \ {"r", "q", "ei"} |-> x[k]]
HaltedStays ==
    (g.pre.halted = 1 /\ g.acked = "none") =>
        /\ Arch(s) = Arch(g.pre)
        /\ s.r = IncR(g.pre.r, 1)
EntersHalt == (g.this = "halt" /\ g.acked = "none" /\ g.pre.halted = 0) => (s.halted = 1 /\ ROM[(s.pc % Len(ROM)) + 1] = 118)
\* "RETN and RETI copy IFF2 to IFF1"
RetnCopies == g.this = "retn" => s.iff1 = g.mid.iff2
\* bookkeeping fields agree with the statement-level classes (what the trace spec relies on)
ShadowMatches ==
    /\ (s.pfx # 0) <=> (g.this = "prefix")
    /\ (s.ei = 1) <=> (g.this \in {"ei", "di", "prefix"})
=============================================================================
