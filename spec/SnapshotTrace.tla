---------------------------- MODULE SnapshotTrace ----------------------------
(* C13: save / load round trips of the real emulator judged by Snapshot.tla.     *)
(* C14: loads of independently written SNA / SZX / SCR files judged against the  *)
(* description they were written from.                                           *)
EXTENDS Snapshot, Screen, Json, IOUtils, FiniteSets

Rec == ndJsonDeserialize(IOEnv.TRACE)

VARIABLES l, bad
tvars == <<l, bad>>
TraceInit == l = 1 /\ bad = 0

DescOf(e) == [m |-> e.m, cpu |-> e.desc.cpu, border |-> e.desc.border, latch |-> e.desc.latch, seed |-> e.seed, ramw |-> e.ramw]

\* fields of a projected machine state that must equal the description after a load
CpuDiff(c, st, fields) == {k \in fields : c[k] # st[k]}

RoundTrip(e) ==
    \E d \in {DescOf(e)} :
    LET badSamples == {i \in DOMAIN e.save.samples : e.save.samples[i][2] # SnaByte(d, e.save.samples[i][1])}
        saveIssues ==
            (IF ~e.save.ok THEN {"save:error"} ELSE {})
            \cup (IF e.save.len # SnaLen(d) THEN {"save:len"} ELSE {})
            \cup {"save:byte" : i \in badSamples}
            \cup (IF badSamples = {} /\ ~e.save.full_equal THEN {"save:byte"} ELSE {})
            \* "Taking the snapshot leaves the running machine's registers and memory unchanged"
            \cup (IF e.save.after # e.before THEN {"save:sidefx:regs"} ELSE {})
            \cup (IF e.save.ram_side_effects # <<>> THEN {"save:sidefx:ram"} ELSE {})
        LoadIssues(ld) ==
            LET st == ld.state
                cpuBad == CpuDiff(d.cpu, st, SnaCpuFields)
            IN (IF ~ld.ok THEN {"error"} ELSE {})
               \cup {"cpu" : k \in cpuBad}
               \cup (IF st.border # d.border THEN {"border"} ELSE {})
               \cup (IF e.m = 128 /\ (st.latch # d.latch \/ st.locked # (Bit(d.latch, 5) = 1)) THEN {"paging"} ELSE {})
               \cup (IF ld.ram_diff # <<>> THEN {"ram"} ELSE {})
               \* what the format does not carry is in its reset value, not inherited from the receiving machine
               \cup (IF st.halted # 0 \/ st.pfx # 0 \/ st.ei # 0 THEN {"inherited"} ELSE {})
               \* "CPU-visible state equals the state at the moment of saving": the restored machine goes on exactly as a twin of
               \* the saved one does (four instructions of known code; registers, R, IFF2, IM, halted after each)
               \cup (IF ld.cont # e.cont_ref THEN {"continuation"} ELSE {})
        loadIssues == {<<e.loads[i].target, x>> : i \in DOMAIN e.loads, x \in UNION {LoadIssues(e.loads[j]) : j \in DOMAIN e.loads}}
        loadBad == {<<e.loads[i].target, x>> : i \in {j \in DOMAIN e.loads : LoadIssues(e.loads[j]) # {}}, x \in {"any"}}
        perLoad == UNION {{<<e.loads[i].target, x>> : x \in LoadIssues(e.loads[i])} : i \in DOMAIN e.loads}
    IN IF saveIssues = {} /\ perLoad = {} THEN bad' = bad
       ELSE /\ PrintT(<<"MISMATCH", l, "roundtrip",
                       [m |-> e.m, save |-> saveIssues, loads |-> perLoad,
                        badbytes |-> {e.save.samples[i] : i \in badSamples},
                        wantbytes |-> {<<e.save.samples[i][1], SnaByte(d, e.save.samples[i][1])>> : i \in badSamples},
                        sidefx |-> e.save.ram_side_effects,
                        cpudiff |-> UNION {CpuDiff(d.cpu, e.loads[i].state, SnaCpuFields) : i \in DOMAIN e.loads}]>>)
            /\ bad' = bad + 1

\* C14: a file written from description d (by the drivers' own writers) loaded into an emulator
FileLoad(e) ==
    \E d \in {[m |-> e.m_file, cpu |-> e.desc.cpu, border |-> e.desc.border, latch |-> e.desc.latch, seed |-> e.seed, ramw |-> e.ramw]} :
    LET same == e.m_file = e.m_emu
        issues ==
          IF ~same
          \* "a file for a model the machine cannot represent is rejected with an error rather than applied"
          THEN (IF e.outcome = "err" THEN {} ELSE {"othermodel:" \o e.outcome})
          ELSE IF e.outcome # "ok" THEN {"load:" \o e.outcome}
          ELSE LET st == e.state
                   \* where PC of a halted CPU points is a convention of the emulator: judged by behaviour below
                   cpuBad == CpuDiff(d.cpu, st, (IF e.is_sna THEN SnaCpuFields ELSE AllCpuFields) \ (IF e.opts.halted THEN {"pc"} ELSE {}))
               IN {"cpu" : k \in cpuBad}
                  \cup (IF st.border # d.border THEN {"border"} ELSE {})
                  \cup (IF {e.border_painted[i] : i \in DOMAIN e.border_painted} # {d.border} THEN {"border:painted"} ELSE {})
                  \cup (IF e.m_file = 128 /\ (st.latch # d.latch \/ st.locked # (Bit(d.latch, 5) = 1)) THEN {"paging"} ELSE {})
                  \cup (IF e.ram_diff # <<>> THEN {"ram"} ELSE {})
                  \* "every RAM page as seen by ... the display": sampled pixels of a later frame are the standard decode
                  \* (either flash phase) of bank 5, or of bank 7 when the file's latch selects the shadow screen
                  \cup (LET sb == IF e.m_file = 128 /\ Bit(d.latch, 3) = 1 THEN 7 ELSE 5
                            BadPix(p) == LET x == p[1]   y == p[2]
                                             bmp == RamAt(d, sb, BitmapOff(y, x \div 8))
                                             attr == RamAt(d, sb, AttrOff(y, x \div 8))
                                         IN p[3] \notin {PixelOf(bmp, attr, x, FALSE), PixelOf(bmp, attr, x, TRUE)}
                            ob == IF sb = 7 THEN 5 ELSE 7
                            BadOther(p) == LET x == p[1]   y == p[2]
                                               bmp == RamAt(d, ob, BitmapOff(y, x \div 8))
                                               attr == RamAt(d, ob, AttrOff(y, x \div 8))
                                           IN p[3] \notin {PixelOf(bmp, attr, x, FALSE), PixelOf(bmp, attr, x, TRUE)}
                        IN (IF \E i \in DOMAIN e.pix : BadPix(e.pix[i]) THEN {"display"} ELSE {})
                           \* the frame the loaded machine continues, at lines the beam reaches after the moment of the load
                           \cup (IF \E i \in DOMAIN e.pix_first : BadPix(e.pix_first[i]) THEN {"display:first-frame"} ELSE {})
                           \* after the program has switched to the other screen bank (128K, paging not locked)
                           \cup (IF \E i \in DOMAIN e.pix_other : BadOther(e.pix_other[i]) THEN {"display:other-screen"} ELSE {}))
                  \* "halted and EI-pending status"; nothing inherited from the receiving machine
                  \cup (IF (st.halted = 1) # e.opts.halted THEN {"halted"} ELSE {})
                  \cup (IF (st.ei = 1) # e.opts.eilast THEN {"eilast"} ELSE {})
                  \cup (IF st.pfx # 0 THEN {"inherited"} ELSE {})
                  \* the Q latch ("did the last instruction change the flags", seen by the next SCF/CCF): clear unless the file
                  \* says otherwise (SZX flag FSET) - equivalent files give machines that behave identically
                  \cup (IF st.q # (IF e.opts.fset THEN d.cpu.af % 256 ELSE 0) THEN {"q"} ELSE {})
                  \cup (IF e.is_sna THEN {}
                        ELSE \* a halted machine stays halted (IFF1 = 0 in these files) and never reaches the INC A behind the HALTs
                             (IF e.opts.halted /\ (e.after3.a # Hi(d.cpu.af) \/ ~e.after3.halted) THEN {"halted:runs-on"} ELSE {})
                             \cup (IF e.opts.ay # <<>> /\ e.ay_readback # e.opts.ay[1].regs THEN {"ay:registers"} ELSE {})
                             \cup (IF e.opts.audible /\ e.after3.energy = 0 THEN {"ay:silent"} ELSE {})
                             \* registers that define silence give silence, whatever the receiving machine was playing
                             \cup (IF e.opts.quiet /\ e.after3.energy_last # 0 THEN {"ay:not-silent"} ELSE {})
                             \cup (IF e.opts.mouse # -1 /\ e.mouse_present # (e.opts.mouse = 2) THEN {"mouse"} ELSE {}))
    IN IF issues = {} THEN bad' = bad
       ELSE /\ PrintT(<<"MISMATCH", l, "fileload",
                       [enc |-> e.enc, target |-> e.target, m_file |-> e.m_file, m_emu |-> e.m_emu, issues |-> issues, detail |-> e.detail,
                        cpudiff |-> IF same /\ e.outcome = "ok" THEN CpuDiff(d.cpu, e.state, IF e.is_sna THEN SnaCpuFields ELSE AllCpuFields) ELSE {}]>>)
            /\ bad' = bad + 1

Step(e) ==
    CASE e.ev = "roundtrip" -> RoundTrip(e)
      [] e.ev = "fileload" -> FileLoad(e)
      \* SCR: a 6912-byte file becomes the bytes at 0x4000..0x5AFF; any other size is not a screen file
      [] e.ev = "scrload" ->
            IF (e.len = 6912 /\ e.outcome = "ok" /\ e.diff = <<>>) \/ (e.len # 6912 /\ e.outcome = "err") THEN bad' = bad
            ELSE PrintT(<<"MISMATCH", l, "scrload", [m |-> e.m, len |-> e.len, outcome |-> e.outcome, diff |-> e.diff, detail |-> e.detail]>>)
                 /\ bad' = bad + 1
      [] OTHER -> bad' = bad

TraceNext == l <= Len(Rec) /\ Step(Rec[l]) /\ l' = l + 1
TraceSpec == TraceInit /\ [][TraceNext]_tvars
TraceAccepted ==
    LET d == TLCGet("stats").diameter IN
    IF d - 1 = Len(Rec) THEN TRUE ELSE Print(<<"TRACE-NOT-CONSUMED", d - 1, Len(Rec)>>, FALSE)
Summary == (l = Len(Rec) + 1) => PrintT(<<"SUMMARY", Len(Rec), bad>>)
=============================================================================
