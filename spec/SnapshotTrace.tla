---------------------------- MODULE SnapshotTrace ----------------------------
(* C13: save / load round trips of the real emulator judged by Snapshot.tla.     *)
(* C14: loads of independently written SNA / SZX / SCR files judged against the  *)
(* description they were written from.                                           *)
EXTENDS Snapshot, Json, IOUtils, FiniteSets

Rec == ndJsonDeserialize(IOEnv.TRACE)

VARIABLES l, bad
tvars == <<l, bad>>
TraceInit == l = 1 /\ bad = 0

DescOf(e) == [m |-> e.m, cpu |-> e.desc.cpu, border |-> e.desc.border, latch |-> e.desc.latch, seed |-> e.seed, ramw |-> e.ramw]

\* fields of a projected machine state that must equal the description after a load
CpuDiff(c, st, fields) == {k \in fields : c[k] # st[k]}

RoundTrip(e) ==
    \E d \in {DescOf(e)} :
    LET badSamples == {i \in DOMAIN e.save.samples : e.save.samples[i][2] # SnaByte(d, e.save.samples[i][1])}
        saveIssues ==
            (IF ~e.save.ok THEN {"save:error"} ELSE {})
            \cup (IF e.save.len # SnaLen(d) THEN {"save:len"} ELSE {})
            \cup {"save:byte" : i \in badSamples}
            \cup (IF badSamples = {} /\ ~e.save.full_equal THEN {"save:byte"} ELSE {})
            \* "Taking the snapshot leaves the running machine's registers and memory unchanged"
            \cup (IF e.save.after # e.before THEN {"save:sidefx:regs"} ELSE {})
            \cup (IF e.save.ram_side_effects # <<>> THEN {"save:sidefx:ram"} ELSE {})
        LoadIssues(ld) ==
            LET st == ld.state
                cpuBad == CpuDiff(d.cpu, st, SnaCpuFields)
            IN (IF ~ld.ok THEN {"error"} ELSE {})
               \cup {"cpu" : k \in cpuBad}
               \cup (IF st.border # d.border THEN {"border"} ELSE {})
               \cup (IF e.m = 128 /\ (st.latch # d.latch \/ st.locked # (Bit(d.latch, 5) = 1)) THEN {"paging"} ELSE {})
               \cup (IF ld.ram_diff # <<>> THEN {"ram"} ELSE {})
               \* what the format does not carry is in its reset value, not inherited from the receiving machine
               \cup (IF st.halted # 0 \/ st.pfx # 0 \/ st.ei # 0 THEN {"inherited"} ELSE {})
        loadIssues == {<<e.loads[i].target, x>> : i \in DOMAIN e.loads, x \in UNION {LoadIssues(e.loads[j]) : j \in DOMAIN e.loads}}
        loadBad == {<<e.loads[i].target, x>> : i \in {j \in DOMAIN e.loads : LoadIssues(e.loads[j]) # {}}, x \in {"any"}}
        perLoad == UNION {{<<e.loads[i].target, x>> : x \in LoadIssues(e.loads[i])} : i \in DOMAIN e.loads}
    IN IF saveIssues = {} /\ perLoad = {} THEN bad' = bad
       ELSE /\ PrintT(<<"MISMATCH", l, "roundtrip",
                       [m |-> e.m, save |-> saveIssues, loads |-> perLoad,
                        badbytes |-> {e.save.samples[i] : i \in badSamples},
                        wantbytes |-> {<<e.save.samples[i][1], SnaByte(d, e.save.samples[i][1])>> : i \in badSamples},
                        sidefx |-> e.save.ram_side_effects,
                        cpudiff |-> UNION {CpuDiff(d.cpu, e.loads[i].state, SnaCpuFields) : i \in DOMAIN e.loads}]>>)
            /\ bad' = bad + 1

Step(e) ==
    CASE e.ev = "roundtrip" -> RoundTrip(e)
      [] OTHER -> bad' = bad

TraceNext == l <= Len(Rec) /\ Step(Rec[l]) /\ l' = l + 1
TraceSpec == TraceInit /\ [][TraceNext]_tvars
TraceAccepted ==
    LET d == TLCGet("stats").diameter IN
    IF d - 1 = Len(Rec) THEN TRUE ELSE Print(<<"TRACE-NOT-CONSUMED", d - 1, Len(Rec)>>, FALSE)
Summary == (l = Len(Rec) + 1) => PrintT(<<"SUMMARY", Len(Rec), bad>>)
=============================================================================
