--------------------------------- MODULE MC_Ay ---------------------------------
(* Spec-only checks for C18: the implementation-shaped envelope machine (segment   *)
(* functions + reset table) produces, for every shape and small period, exactly    *)
(* the documented pattern for 200 ticks; catalogue facts of the shapes.            *)
EXTENDS Ay

Shapes == 0..15
ASSUME \A sh \in Shapes, ep \in 1..3 :
          LET tr == ImEnvTrajectory(sh, ep, 70 * ep + 5) IN \A n \in 0..(70 * ep + 5) : tr[n + 1] = EnvValue(sh, ep, n)
\* catalogue: one-shot shapes end at 0 or 31 and stay; repeating ones have period 32*EP (saw) or 64*EP (triangle)
ASSUME \A sh \in 0..7 : \A n \in 32..200 : EnvValue(sh, 1, n) = 0
ASSUME \A n \in 32..200 : EnvValue(9, 1, n) = 0 /\ EnvValue(15, 1, n) = 0 /\ EnvValue(11, 1, n) = 31 /\ EnvValue(13, 1, n) = 31
ASSUME \A n \in 0..200 : EnvValue(8, 2, n) = EnvValue(8, 2, n + 64) /\ EnvValue(12, 2, n) = EnvValue(12, 2, n + 64)
ASSUME \A n \in 0..200 : EnvValue(10, 2, n) = EnvValue(10, 2, n + 128) /\ EnvValue(14, 2, n) = EnvValue(14, 2, n + 128)
ASSUME \A n \in 0..31 : EnvValue(10, 1, n) = 31 - n /\ EnvValue(10, 1, 32 + n) = n /\ EnvValue(14, 1, n) = n /\ EnvValue(14, 1, 32 + n) = 31 - n
\* panning table
ASSUME PanClass(1, 0) = "left" /\ PanClass(1, 1) = "both" /\ PanClass(1, 2) = "right"
ASSUME PanClass(2, 0) = "left" /\ PanClass(2, 2) = "both" /\ PanClass(2, 1) = "right"
ASSUME PanClass(4, 1) = "left" /\ PanClass(4, 2) = "both" /\ PanClass(4, 0) = "right"
ASSUME \A m \in 1..6 : {PanClass(m, c) : c \in 0..2} = {"left", "both", "right"}
ASSUME PrintT(<<"CASES", 16 * 3 * 200>>)
=============================================================================
