
