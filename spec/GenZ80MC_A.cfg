SPECIFICATION GSpec
CONSTANTS
  ROM <- RomA
  Depth = 5
INVARIANT Emit
CHECK_DEADLOCK FALSE
