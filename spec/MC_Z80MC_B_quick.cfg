SPECIFICATION Spec
CONSTANTS
  ROM <- RomB
  Depth = 14
INVARIANTS IntOnlyWhenAllowed NmiNotInsidePrefix AckFlipFlops AckTarget AckTime HaltedStays EntersHalt RetnCopies ShadowMatches
CHECK_DEADLOCK FALSE
