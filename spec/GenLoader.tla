------------------------------- MODULE GenLoader -------------------------------
EXTENDS Loader, Json, SequencesExt, IOUtils
ASSUME ndJsonSerialize(IOEnv.OUT, SetToSeq(AllShapes))
ASSUME PrintT(<<"SHAPES", Cardinality(AllShapes)>>)
=============================================================================
