"""C18 AY chip: the implementation-shaped envelope machine equals the documented shape catalogue
(S); experiments on the real AymPrecise core observed tick by tick through the level hook (tone,
noise clock, all 16 envelope shapes, mixer gating), its analog output (volume monotone, pan per
stereo mode, tone frequency at 8..384 kHz, bounds) and the Spectrum port view (T)."""
import json, os
from vlib import *

PID = "C18"


def validate(trace, name):
    r = tlc("AyTrace", "AyTrace.cfg", PID, name, trace=trace, timeout=3000)
    summ = r.tuples("SUMMARY")
    if not r.ok or not summ:
        raise ToolError(f"AyTrace did not complete on {trace}: {r.error}")
    return r, summ[0][1], r.tuples("MISMATCH")


def line_of(trace, n):
    with open(trace) as f:
        for i, line in enumerate(f, 1):
            if i == n:
                return line
    return ""


def judge(chk, trace, mm):
    for m in mm:
        d = m[3]
        sub = ""
        if m[2] == "env":
            sub = f":shape{d['shape']}"
        elif m[2] == "pan":
            sub = f":mode{d['mode']}"
        elif m[2] == "freq":
            sub = f":{d['rate']}"
        chk.classify(m[2] + sub, f"{m[2]}: {str(d)[:300]}", lambda m=m, trace=trace: [line_of(trace, m[1])], extra=m)


def run(tier, seed):
    chk = Check(PID, tier, seed, "model_checking")
    wd = workdir(PID)
    build_harness()
    quick = tier == "quick"
    shards = 2 if quick else 12

    def mc():
        return tlc("MC_Ay", "MC_Ay.cfg", PID, "mc", workers=1, deque=False, timeout=600)

    def shard(k):
        trace = os.path.join(wd, f"trace{k}.ndjson")
        harness(["ay", "--out", trace, "--seed", seed * 1000 + k, "--n", 48 if quick else 400])
        return (trace,) + validate(trace, f"t{k}")

    res = parallel([mc] + [lambda k=k: shard(k) for k in range(shards)])
    r = res[0]
    if not r.ok:
        chk.violation(f"MC_Ay: {r.error}")
    cases = r.tuples("CASES")
    if cases:
        r.distinct += cases[0][1]; r.generated += cases[0][1]
    chk.add_spec_run("MC_Ay.cfg", r, "16 shapes x EP 1..3 x ~200 ticks: segment/reset-table machine = documented pattern; catalogue (hold values, periods, alternation); pan table")
    first = None
    for trace, r, n, mm in res[1:]:
        first = first or trace
        chk.cov["events_validated"] += n
        chk.cov["states"] += r.distinct
        chk.cov["transitions"] += r.generated
        judge(chk, trace, mm)
    st = os.path.join(wd, "selftest.ndjson")
    n = 0
    with open(first) as f, open(st, "w") as g:
        for line in f:
            e = json.loads(line)
            if e["ev"] == "tone" and n == 0 and len(e["runs"]) > 4:
                e["runs"][2][1] += 1; n += 1
            elif e["ev"] == "env" and n == 1:
                e["vals"][40] ^= 1; n += 1
            elif e["ev"] == "hist" and n == 2:
                runs = [o for o in e["ops"] if o[0] == "run"]
                if not runs:
                    continue
                t = runs[-1][1][0]
                t[0] = 30 if t[0] != 30 else 28      # an even level index is neither a fixed volume nor silence
                e["ops"] = [["w", 8, 0x0F], ["w", 7, 0x3F]] + [runs[-1]]
                n += 1
            elif e["ev"] == "freq" and n == 3:
                e["crossings"] *= 2; n += 1
            elif e["ev"] == "ayport" and n == 4:
                for o in e["ops"]:
                    if o[0] == "rd":
                        o[1] ^= 0x80; n += 1
                        break
            else:
                continue
            g.write(json.dumps(e) + "\n")
    _, _, mm2 = validate(st, "selftest")
    chk.cov["selftest"] = {"corrupted_events": n, "rejected": len(mm2), "ok": len(mm2) == n and n == 5}
    if not chk.cov["selftest"]["ok"]:
        chk.selftest_failed("corrupted experiments were not all rejected")
    with open(first) as f:
        e = json.loads(next(f))
        chk.sample({k: (e[k] if k != "runs" else e[k][:6]) for k in e})
    chk.cov["traces_validated_against_impl"] = chk.cov["events_validated"]
    n_ = 48 if quick else 400
    chk.cov["rule"] = (f"{shards} shards x {n_} cases of each experiment: tone (TP 0,1,2,0xFFF, random 12-bit with garbage in the unused nibble; every half "
                       "period exactly TP ticks), noise (NP 0,1,31, random; run lengths multiples of 2NP with gcd 2NP over 800 NP ticks), envelope (16 shapes x "
                       "EP 1,2,0,random; 150 EP ticks after the R13 write, tick by tick), mixer (random register sets, 3000 ticks), envelope period rewritten in mid-step without an R13 write (repeating shapes must not rest longer than two periods), register histories (10..40 writes to any register in any order interleaved with generation, every tick of every channel judged against the registers in force and the envelope position since the last R13 write), DAC monotone, pan for "
                       "7 modes x 3 channels, one-second zero-crossing count at 8..384 kHz, select/write/read sequences through ports 0xFFFD/0xBFFD, and a one-shot envelope started, left to die away and restarted through the Spectrum's ports by writing R13 again (mostly with the same value)")
    chk.assumptions += ["numeric accuracy of interpolation / FIR decimation / DC filter is not decided (TLA+ has no reals); only quantised features of the output are",
                        "the noise polynomial is not part of the statement: only the noise clock is judged"]
    return chk.finish()


def replay(path, seed):
    chk = Check(PID, "quick", seed, "model_checking")
    r, n, mm = validate(path, "replay")
    chk.cov["events_validated"] = n
    chk.cov["states"] = max(1, r.distinct); chk.cov["transitions"] = max(1, r.generated)
    chk.cov["traces_validated_against_impl"] = n
    chk.sample(open(path).readline().strip()[:300])
    judge(chk, path, mm)
    return chk.finish()
