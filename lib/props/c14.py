"""C14 loading well-formed SNA / SZX / SCR files: files are written by the harness' own writers from
random machine descriptions (SNA; SZX stored; SZX compressed + shuffled chunks + unknown chunks;
HALTED / EILAST flags, AY block, mouse block) and loaded into fresh and dirty emulators of both
models; SnapshotTrace judges the resulting machine against the description."""
from props.snapcommon import *

PID = "C14"


def judge(chk, trace, mm):
    for m in mm:
        d = m[3]
        if m[2] == "fileload":
            for issue in sorted(d["issues"]):
                chk.classify(issue, f"{d['enc']} file for {d['m_file']}K into {d['target']} {d['m_emu']}K emulator: {sorted(d['issues'])} "
                             f"cpu {sorted(d['cpudiff'])} {d['detail']}", lambda m=m, trace=trace: [line_of(trace, m[1])], extra=m)
        elif m[2] == "scrload":
            chk.classify(f"scr:{d['outcome']}", f"SCR load: {d}", lambda m=m, trace=trace: [line_of(trace, m[1])], extra=m)


def run(tier, seed):
    chk = Check(PID, tier, seed, "model_checking")
    wd = workdir(PID)
    build_harness()
    quick = tier == "quick"
    shards = 2 if quick else 12

    def mc():
        return tlc("MC_Snapshot", "MC_Snapshot.cfg", PID, "mc", workers=1, deque=False, timeout=1200)

    def shard(k):
        trace = os.path.join(wd, f"trace{k}.ndjson")
        harness(["snapshot", "--out", trace, "--seed", seed * 1000 + k, "--fileloads", 40 if quick else 500, "--scrloads", 40 if quick else 400])
        return (trace,) + validate(PID, trace, f"t{k}")

    res = parallel([mc] + [lambda k=k: shard(k) for k in range(shards)])
    r = res[0]
    if not r.ok:
        chk.violation(f"MC_Snapshot: {r.error}")
    cases = r.tuples("CASES")
    if cases:
        r.distinct += cases[0][1]; r.generated += cases[0][1]
    chk.add_spec_run("MC_Snapshot.cfg", r, "PAGE=2: SnaDecode of every encodable description; files of the other model decode to Err")
    first = None
    for trace, r, n, mm in res[1:]:
        first = first or trace
        chk.cov["events_validated"] += n
        chk.cov["states"] += r.distinct
        chk.cov["transitions"] += r.generated
        judge(chk, trace, mm)
    # self-test
    st = os.path.join(wd, "selftest.ndjson")
    n = 0
    with open(first) as f, open(st, "w") as g:
        for line in f:
            e = json.loads(line)
            if e["ev"] == "fileload" and e["outcome"] == "ok" and e["m_file"] == e["m_emu"] and n < 4:
                if n == 0:
                    e["state"]["de_"] ^= 0x100
                elif n == 1:
                    e["ram_diff"] = [[5, 1, 2, 3]]
                elif n == 2:
                    e["pix"][7][2] ^= 0x10          # a colour value no decode produces
                else:
                    e["state"]["border"] = (e["state"]["border"] + 1) % 8
                n += 1
                g.write(json.dumps(e) + "\n")
            elif e["ev"] == "fileload" and e["m_file"] != e["m_emu"] and n == 4:
                e["outcome"] = "ok"; n += 1
                g.write(json.dumps(e) + "\n")
    _, _, mm2 = validate(PID, st, "selftest")
    chk.cov["selftest"] = {"corrupted_events": n, "rejected": len(mm2), "ok": len(mm2) == n and n == 5}
    if not chk.cov["selftest"]["ok"]:
        chk.selftest_failed("corrupted loads were not all rejected")
    e = json.loads(open(first).readline())
    chk.sample({k: e[k] for k in ("enc", "target", "m_file", "m_emu", "desc", "opts", "outcome")})
    chk.cov["traces_validated_against_impl"] = chk.cov["events_validated"]
    chk.cov["rule"] = (f"{shards} shards x {40 if quick else 500} descriptions x 3 encodings (SNA, SZX stored, SZX zlib + shuffled + unknown chunks) x 6 receiving "
                       "emulators (fresh, halted, mid-prefix, paging-locked, EI-shadow, other model); judged: every register, IFF1/2, IM, halted, EI-pending, "
                       "latch + lock, border, all RAM, 32 sampled pixels of a later frame against the standard decode of the file's bank 5 / 7 (CPU parked), AY read-back through the ports, audible AY state (sample energy over 3 frames), mouse presence, a "
                       f"halted machine staying halted; plus {40 if quick else 400} SCR loads (right and wrong sizes)")
    chk.assumptions += ["PC of a halted CPU is judged by behaviour (HALT at PC-1 and PC, INC A behind them must not execute), not by its value",
                        "receiving emulators have AY emulation enabled; interrupts go to the ROM's IM 1 handler during the 3 behaviour frames"]
    return chk.finish()


def replay(path, seed):
    chk = Check(PID, "quick", seed, "model_checking")
    r, n, mm = validate(PID, path, "replay")
    chk.cov["events_validated"] = n
    chk.cov["states"] = max(1, r.distinct); chk.cov["transitions"] = max(1, r.generated)
    chk.cov["traces_validated_against_impl"] = n
    chk.sample(open(path).readline().strip()[:300])
    judge(chk, path, mm)
    return chk.finish()
