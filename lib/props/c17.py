"""C17 input ports: exhaustive refinement of the implementation-shaped matrices against the
statement-shaped held-sets on a reduced universe (S); random event histories on the real emulator
with the emulated CPU reading the ports after every event (T)."""
import json, os
from vlib import *

PID = "C17"


def validate(trace, name, cfg):
    r = tlc("InputTrace", cfg, PID, name, trace=trace, timeout=3000)
    summ = r.tuples("SUMMARY")
    if not r.ok or not summ:
        raise ToolError(f"InputTrace did not complete on {trace}: {r.error}")
    return r, summ[0][1], r.tuples("MISMATCH")


def run_of(trace, lineno):
    run = []
    with open(trace) as f:
        for i, line in enumerate(f, 1):
            if '"ev":"reset"' in line:
                run = []
            if '"ev":"rd"' not in line or i == lineno:
                run.append(line)
            if i == lineno:
                break
    return run


def trace_cfg():
    return "InputTrace.cfg" if any(k.get("key") == "sinclair2down" for k in load_known(PID)) else "InputTrace_strict.cfg"


def judge(chk, trace, mm):
    for m in mm:
        cls = m[2]
        chk.classify(cls if cls != "unexplained" else f"unexplained:{m[3]['port']}",
                     f"port read {m[3]} ({cls})", lambda m=m: run_of(trace, m[1]), extra=m)


def run(tier, seed):
    chk = Check(PID, tier, seed, "model_checking")
    wd = workdir(PID)
    build_harness()
    quick = tier == "quick"
    cfg = trace_cfg()
    shards = 2 if quick else 10

    def mc():
        c = "MC_Input.cfg" if quick else "MC_Input_deep.cfg"
        return c, tlc("MC_Input", c, PID, "mc", workers=4 if quick else 8, deque=False, timeout=2400)

    def shard(k):
        trace = os.path.join(wd, f"trace{k}.ndjson")
        harness(["input", "--out", trace, "--seed", seed * 1000 + k, "--histories", 20 if quick else 200, "--len", 50,
                 "--pairs", 1 if k == 0 else 0])
        return (trace,) + validate(trace, f"t{k}", cfg)

    res = parallel([mc] + [lambda k=k: shard(k) for k in range(shards)])
    c, r = res[0]
    if not r.ok:
        chk.violation(f"MC_Input: {r.error}")
    chk.add_spec_run(c, r, "6 keys, 4 compound keys, 2x3 Sinclair controls, 3 Kempston bits, 2 mouse buttons, wheel, 2x2 motion deltas; all histories to depth " + ("4" if quick else "5"))
    first = None
    runs = 0
    for trace, r, n, mm in res[1:]:
        first = first or trace
        chk.cov["events_validated"] += n
        chk.cov["states"] += r.distinct
        chk.cov["transitions"] += r.generated
        runs += sum(1 for l in open(trace) if '"ev":"reset"' in l)
        judge(chk, trace, mm)
    with open(first) as f:
        chk.sample([next(f).strip() for _ in range(6)])
    # binding self-test: flip one bit of three recorded reads
    st = os.path.join(wd, "selftest.ndjson")
    n = 0
    with open(first) as f, open(st, "w") as g:
        for i, line in enumerate(f):
            if '"ev":"rd"' in line and n < 3 and i % 97 == 50:
                e = json.loads(line); e["val"] ^= 0x04 if e["port"] % 2 == 0 else 0x01; line = json.dumps(e) + "\n"; n += 1
            g.write(line)
            if i > 3000:
                break
    r2, _, mm2 = validate(st, "selftest", "InputTrace_strict.cfg")
    new = [m for m in mm2 if m[2] == "unexplained"]
    chk.cov["selftest"] = {"corrupted_events": n, "rejected": len(new), "ok": len(new) >= n and n > 0}
    if not chk.cov["selftest"]["ok"]:
        chk.selftest_failed("corrupted reads were not rejected")
    chk.cov["traces_validated_against_impl"] = runs
    chk.cov["rule"] = (f"{shards} shards x {20 if quick else 200} histories of 50 events over all 40 keys, 7 compound keys, 2x5 Sinclair controls, 8 Kempston bits, "
                       "4 mouse buttons, wheel, motion deltas incl. +-127/-128; after every event the CPU reads the 8 half-rows, 6 random selectors "
                       "(all 256 every 10th event) and the joystick or mouse ports; 48K and 128K; mouse on/off; plus, once, every ordered pair of the 29 "
                       "interacting controls (7 compound keys, 2x5 Sinclair controls, CAPS SHIFT, SPACE, digits) x both release orders, all eight "
                       "half-rows read after the second press and after each release")
    chk.assumptions += ["only bits 0-4 (and the constant bits 5,7) of ULA reads are judged here; EAR is C07/C11",
                        "with the mouse enabled every odd A5=0 port also selects the mouse, so the Kempston joystick is judged in mouse-less configurations",
                        "initial mouse counters are learnt from the first reads"]
    return chk.finish()


def replay(path, seed):
    chk = Check(PID, "quick", seed, "model_checking")
    r, n, mm = validate(path, "replay", trace_cfg())
    chk.cov["events_validated"] = n
    chk.cov["states"] = max(1, r.distinct); chk.cov["transitions"] = max(1, r.generated)
    chk.cov["traces_validated_against_impl"] = 1
    chk.sample(open(path).readline().strip())
    judge(chk, path, mm)
    return chk.finish()
