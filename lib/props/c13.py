"""C13 SNA save/load round trip: SnaDecode(SnaEncode(d)) = d exhaustively on tiny pages (S);
on the real emulator random machine states are saved (file compared with SnaEncode, side effects on
the running machine) and loaded back into the same, a fresh and five kinds of dirty emulators (T)."""
from props.snapcommon import *

PID = "C13"


def judge(chk, trace, mm):
    for m in mm:
        if m[2] != "roundtrip":
            continue
        d = m[3]
        issues = sorted(d["save"]) + sorted({f"load:{x[1]}" for x in d["loads"]})
        for key in sorted(set(issues)):
            chk.classify(key, f"round trip (m={d['m']}): {key}; save {d['save']} loads {d['loads']} bytes {d['badbytes']} "
                         f"want {d['wantbytes']} cpu {d['cpudiff']}", lambda m=m, trace=trace: [line_of(trace, m[1])], extra=m)


def run(tier, seed):
    chk = Check(PID, tier, seed, "model_checking")
    wd = workdir(PID)
    build_harness()
    quick = tier == "quick"
    shards = 2 if quick else 12

    def mc():
        return tlc("MC_Snapshot", "MC_Snapshot.cfg", PID, "mc", workers=1, deque=False, timeout=1200)

    def shard(k):
        trace = os.path.join(wd, f"trace{k}.ndjson")
        harness(["snapshot", "--out", trace, "--seed", seed * 1000 + k, "--roundtrips", 150 if quick else 2000])
        return (trace,) + validate(PID, trace, f"t{k}")

    res = parallel([mc] + [lambda k=k: shard(k) for k in range(shards)])
    r = res[0]
    if not r.ok:
        chk.violation(f"MC_Snapshot: {r.error}")
    cases = r.tuples("CASES")
    if cases:
        r.distinct += cases[0][1]; r.generated += cases[0][1]
    chk.add_spec_run("MC_Snapshot.cfg", r, "PAGE=2: 48K with SP at every RAM address x 3 PCs, 128K with every latch value; decode(encode(d)) = d; other model rejected")
    first = None
    loads = 0
    for trace, r, n, mm in res[1:]:
        first = first or trace
        chk.cov["events_validated"] += n
        chk.cov["states"] += r.distinct
        chk.cov["transitions"] += r.generated
        loads += n * 7
        judge(chk, trace, mm)
    # self-test: a wrong header byte in the recorded file sample, a register lost by a load
    st = os.path.join(wd, "selftest.ndjson")
    with open(first) as f, open(st, "w") as g:
        e = json.loads(f.readline()); e["save"]["samples"][3][1] ^= 0x10; g.write(json.dumps(e) + "\n")
        e = json.loads(f.readline()); e["loads"][1]["state"]["ix"] ^= 1; g.write(json.dumps(e) + "\n")
        e = json.loads(f.readline()); e["save"]["ram_side_effects"] = [[5, 10, 1, 2]]; g.write(json.dumps(e) + "\n")
    _, _, mm2 = validate(PID, st, "selftest")
    chk.cov["selftest"] = {"corrupted_events": 3, "rejected": len(mm2), "ok": len(mm2) == 3}
    if len(mm2) != 3:
        chk.selftest_failed("corrupted round trips were not all rejected")
    e = json.loads(open(first).readline())
    chk.sample({"m": e["m"], "desc": e["desc"], "ramw": e["ramw"], "save": {k: e["save"][k] for k in ("ok", "len", "full_equal")},
                "loads": [(l["target"], l["ok"]) for l in e["loads"]]})
    chk.cov["traces_validated_against_impl"] = chk.cov["events_validated"]
    chk.cov["loads_judged"] = loads
    chk.cov["rule"] = (f"{shards} shards x {150 if quick else 2000} random machine states (all registers, IFF, IM, border, any paging latch incl. lock, RAM = "
                       "known pattern + sparse overrides in every bank, SP anywhere incl. 0x4002 and 0xFFFF); saved file compared with SnaEncode at all "
                       "header bytes, page boundaries, overridden cells and 40 random positions plus byte-for-byte against an independent writer; "
                       "registers and all RAM of the running machine compared before/after the save; load into same/fresh/halted/mid-prefix/EI-shadow/"
                       "paging-locked/other-border emulators with all RAM compared")
    chk.assumptions += ["IFF1 is not carried by the format: only IFF2 is compared", "48K: the two bytes below SP hold PC after a load (format) and SP-2.. must be RAM"]
    return chk.finish()


def replay(path, seed):
    chk = Check(PID, "quick", seed, "model_checking")
    r, n, mm = validate(PID, path, "replay")
    chk.cov["events_validated"] = n
    chk.cov["states"] = max(1, r.distinct); chk.cov["transitions"] = max(1, r.generated)
    chk.cov["traces_validated_against_impl"] = n
    chk.sample(open(path).readline().strip()[:300])
    judge(chk, path, mm)
    return chk.finish()
