"""C04 contention: every emulate() call of the full machine from chosen in-frame times; the clock
after the call must equal Z80.tla's cycle list folded through Ula.tla's contention model."""
from props.ulacommon import *

PID = "C04"


def scen(quick):
    return ["--machines", 16 if quick else 32, "--steps", 1200 if quick else 6000]


def rule(quick, shards):
    return (f"{shards} shards x {16 if quick else 32} machine instances (48K; 128K with each bank 0..7 at 0xC000, both ROMs, paging locked), "
            "random encodings of all seven pages with PC, SP, HL, BC, DE, IX, IY, I and the port high byte placed in every 16K window; start "
            "times from 12 classes (INT window, frame end, first/last contended T-state, inside/outside the 128-T window of a random line, uniform); a quarter "
            "of the addresses on a window boundary, a third of the instructions from the 64 encodings with register-addressed internal / port cycles, "
            "every other machine with an I/O extender claiming the ports with low byte 0xCC (half of the port instructions address one)")


ASSUME = ["memory reads Base(seed, offset) everywhere (custom ROM pages, RAM filled through the CPU write path); cells written by "
          "instructions are tracked by comparing all 64K after every call",
          "port input values do not influence the duration of the call that reads them"]


def run(tier, seed):
    return run_ula(PID, tier, seed, ["MC_Ula.cfg"], scen, rule, ASSUME).finish()


def replay(path, seed):
    return replay_ula(PID, path, seed)
