"""Shared by C13 and C14: snapshot traces judged by SnapshotTrace.tla."""
import json, os
from vlib import *


def validate(pid, trace, name):
    r = tlc("SnapshotTrace", "SnapshotTrace.cfg", pid, name, trace=trace, timeout=3000)
    summ = r.tuples("SUMMARY")
    if not r.ok or not summ:
        raise ToolError(f"SnapshotTrace did not complete on {trace}: {r.error}")
    return r, summ[0][1], r.tuples("MISMATCH")


def line_of(trace, n):
    with open(trace) as f:
        for i, line in enumerate(f, 1):
            if i == n:
                return line
    return ""
