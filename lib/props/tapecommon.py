"""Shared by C10, C11, C12: tape traces validated by TapeTrace.tla."""
import json, os
from vlib import *


def validate(trace, name, pid):
    r = tlc("TapeTrace", "TapeTrace.cfg", pid, name, trace=trace, timeout=3000)
    summ = r.tuples("SUMMARY")
    if not r.ok or not summ:
        raise ToolError(f"TapeTrace did not complete on {trace}: {r.error}")
    return r, summ[0][1], r.tuples("MISMATCH")


def run_of(trace, lineno, keep_edges=400):
    """events of the run (from its "tape" event) that contains line `lineno`; long stretches of
    edges are kept (the observer needs all of them)"""
    run = []
    with open(trace) as f:
        for i, line in enumerate(f, 1):
            if '"ev":"tape"' in line:
                run = []
            run.append(line)
            if i == lineno:
                break
    return run


def run_tape(pid, tier, seed, mc_runs, scen, rule, assumptions, kinds, selftest):
    chk = Check(pid, tier, seed, "model_checking")
    wd = workdir(pid)
    build_harness()
    quick = tier == "quick"
    shards = 2 if quick else 10

    def mc(mod, cfg, const):
        r = tlc(mod, cfg, pid, "mc_" + cfg, workers=2 if quick else 4, deque=False, timeout=2400)
        return mod, cfg, const, r

    def shard(k):
        trace = os.path.join(wd, f"trace{k}.ndjson")
        harness(["tape", "--out", trace, "--seed", seed * 1000 + k] + scen(quick))
        return (trace,) + validate(trace, f"t{k}", pid)

    res = parallel([lambda a=a: mc(*a) for a in mc_runs(quick)] + [lambda k=k: shard(k) for k in range(shards)])
    nmc = len(mc_runs(quick))
    for mod, cfg, const, r in res[:nmc]:
        if not r.ok:
            chk.violation(f"{mod}/{cfg}: {r.error}")
        cases = r.tuples("CASES")
        if cases:
            r.distinct += cases[0][1]; r.generated += cases[0][1]
        chk.add_spec_run(cfg, r, const)
    first = None
    runs = 0
    for trace, r, n, mm in res[nmc:]:
        first = first or trace
        chk.cov["events_validated"] += n
        chk.cov["states"] += r.distinct
        chk.cov["transitions"] += r.generated
        runs += sum(1 for l in open(trace) if '"ev":"tape"' in l)
        for m in mm:
            if m[2] not in kinds:
                continue
            d = m[3]
            key = f"{m[2]}:{d.get('why', '')}"
            chk.classify(key, f"{m[2]}: {d}", lambda m=m, trace=trace: run_of(trace, m[1]), extra=m)
    with open(first) as f:
        chk.sample([next(f).strip()[:300] for _ in range(4)])
    ok, n, rej = selftest(pid, first, seed)
    chk.cov["selftest"] = {"corrupted_events": n, "rejected": rej, "ok": ok}
    if not ok:
        chk.selftest_failed("corrupted events were not all rejected")
    chk.cov["traces_validated_against_impl"] = runs
    chk.cov["rule"] = rule(quick, shards)
    chk.assumptions += assumptions
    return chk


def replay_tape(pid, path, seed, kinds):
    chk = Check(pid, "quick", seed, "model_checking")
    r, n, mm = validate(path, "replay", pid)
    chk.cov["events_validated"] = n
    chk.cov["states"] = max(1, r.distinct); chk.cov["transitions"] = max(1, r.generated)
    chk.cov["traces_validated_against_impl"] = 1
    chk.sample(open(path).readline().strip()[:300])
    for m in mm:
        if m[2] in kinds:
            chk.classify(f"{m[2]}:{m[3].get('why', '')}", f"{m[2]}: {m[3]}", run_of(path, m[1]), extra=m)
    return chk.finish()


def corrupt(pid, trace, edit, limit=4):
    """generic self-test: apply `edit(event) -> bool` to the first `limit` events it accepts; the runs
    containing them must each produce a mismatch"""
    out = os.path.join(workdir(pid), "selftest.ndjson")
    n = 0
    armed = True           # at most one corruption per tape run (a failed run is not judged further)
    with open(trace) as f, open(out, "w") as g:
        for line in f:
            if '"ev":"tape"' in line:
                if n >= limit:
                    break
                armed = True
            elif n < limit and armed:
                e = json.loads(line)
                if edit(e, n):
                    n += 1
                    armed = False
                    line = json.dumps(e) + "\n"
            g.write(line)
    r, total, mm = validate(out, "selftest", pid)
    return len(mm) >= n and n > 0, n, len(mm)
