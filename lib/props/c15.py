"""C15 loaders are total (fault enumeration): Loader.tla's walkers terminate on every abstract
input (S); TLC enumerates the catalogue of malformed shapes; the harness turns them into bytes and
runs the real loaders on them, on well-formed files through an asset failing at every request
index, and on mutated / random byte strings, under catch_unwind, a watchdog and a counting
allocator; LoaderTrace judges the outcomes."""
import json, os, subprocess
from vlib import *

PID = "C15"


def gen_shapes(wd):
    out = os.path.join(wd, "shapes.ndjson")
    if os.path.exists(out):
        os.remove(out)
    r = tlc("GenLoader", "GenLoader.cfg", PID, "gen", deque=False, timeout=600, env_extra={"OUT": out})
    n = r.tuples("SHAPES")
    if not r.ok or not n or not os.path.exists(out):
        raise ToolError("shape generation failed: " + r.error)
    return out, n[0][1]


def run_cases(out, args):
    """the harness ends itself after recording a hang (exit 3) or an oversized allocation (exit 4);
    it is restarted behind that case"""
    build_harness()
    if os.path.exists(out):
        os.remove(out)
    start = 0
    restarts = 0
    while True:
        p = subprocess.run([BIN, "loaders", "--out", out, "--from", str(start)] + [str(a) for a in args],
                           stdout=subprocess.PIPE, stderr=subprocess.PIPE, text=True, timeout=3000)
        if p.returncode == 0:
            return restarts
        if p.returncode not in (3, 4):
            log(p.stderr[-2000:])
            raise ToolError(f"loaders harness failed rc={p.returncode}")
        with open(out) as f:
            last = None
            for last in f:
                pass
        start = json.loads(last)["idx"] + 1
        restarts += 1
        if restarts > 2000:
            raise ToolError("too many restarts")


def validate(trace, name):
    r = tlc("LoaderTrace", "LoaderTrace.cfg", PID, name, trace=trace, timeout=3000)
    summ = r.tuples("SUMMARY")
    if not r.ok or not summ:
        raise ToolError(f"LoaderTrace did not complete on {trace}: {r.error}")
    return r, summ[0][1], r.tuples("MISMATCH")


def site(detail):
    """panic site without line number: '<file> ' prefix of the recorded location"""
    loc = detail.split(" ")[0]
    path = loc.rsplit(":", 1)[0]
    if "delharc" in path:
        return "delharc"
    return path


def line_of(trace, n):
    with open(trace) as f:
        for i, line in enumerate(f, 1):
            if i == n:
                return line
    return ""


def judge(chk, trace, mm):
    for m in mm:
        d = m[3]
        kind = m[2]
        if kind == "panic":
            key = "panic:" + site(d["detail"])
        elif kind == "postpanic":
            key = "postpanic:" + site(d["post"][6:])
        else:
            key = f"{kind}:{d['kind']}"
        chk.classify(key, f"{kind} in {d['kind']} loader: {d['detail'] or d['post']} alloc={d['alloc']} size={d['size']} case {d['what'][:200]}",
                     lambda m=m, trace=trace: [line_of(trace, m[1])], extra=m)


def run(tier, seed):
    chk = Check(PID, tier, seed, "fault_enumeration")
    wd = workdir(PID)
    quick = tier == "quick"
    shapes, nshapes = gen_shapes(wd)
    parts = 8 if quick else 12

    def mc():
        return tlc("MC_Loader", "MC_Loader_TRUE.cfg", PID, "mc", workers=2 if quick else 4, deque=False, timeout=900)

    def part(k):
        t = os.path.join(wd, f"cases{k}.ndjson")
        return t, run_cases(t, ["--shapes", shapes, "--seed", seed, "--random", 300 if quick else 20000, "--part", k, "--parts", parts])

    res = parallel([mc] + [lambda k=k: part(k) for k in range(parts)])
    r_mc = res[0]
    trace = os.path.join(wd, "cases.ndjson")
    restarts = 0
    with open(trace, "w") as g:
        for t, rs in res[1:]:
            restarts += rs
            with open(t) as f:
                g.write(f.read())
            os.remove(t)
    r, n, mm = validate(trace, "cases")
    if not r_mc.ok:
        chk.violation(f"MC_Loader: {r_mc.error}")
    judge(chk, trace, mm)
    kinds = {}
    with open(trace) as f:
        for line in f:
            e = json.loads(line)
            k = (e.get("kind", ""), e["outcome"])
            kinds[k] = kinds.get(k, 0) + 1
    # self-test
    st = os.path.join(wd, "selftest.ndjson")
    with open(trace) as f, open(st, "w") as g:
        e = json.loads(f.readline()); e["outcome"] = "panic"; e["detail"] = "x/y.rs:1 boom"; g.write(json.dumps(e) + "\n")
        e = json.loads(f.readline()); e["alloc"] = 2_000_000_000; g.write(json.dumps(e) + "\n")
        e = json.loads(f.readline()); e["outcome"] = "hang"; g.write(json.dumps(e) + "\n")
        e = json.loads(f.readline()); e["post"] = "panic:z.rs:3 later"; g.write(json.dumps(e) + "\n")
    _, _, mm2 = validate(st, "selftest")
    chk.cov["selftest"] = {"corrupted_events": 4, "rejected": len(mm2), "ok": len(mm2) == 4}
    if len(mm2) != 4:
        chk.selftest_failed("corrupted outcomes were not all rejected")
    chk.cov.update({
        "evaluations": n,
        "distinct_nontrivial": sum(1 for (k, o), v in kinds.items() for _ in range(v) if o != "ok"),
        "rule": ("cases = (a) every malformed shape of Loader.tla's catalogue turned into bytes: SNA sizes around every "
                 "boundary x IM x border x latch; SZX magic/machine id/chunk id x declared size (exact, short, zero, over, 0xFFFFFFF0) x content "
                 "variants, single chunks and pairs; TAP length fields against missing bytes; SCR sizes; ROM page counts/sizes; VTX id/stereo/player "
                 "frequency/size field/string count/body; gzip valid/bad magic/truncated/bad CRC/empty/bomb; (b) six well-formed files through an "
                 "asset that fails with Err or Ok(0) at request k for k = 0..119, and with 1-byte reads; (c) mutated headers, mutated bytes, truncations "
                 "and random strings; (d) field sweep: every header byte, chunk size byte and the first 8 data bytes of every chunk of well-formed SZX files "
                 "(48K stored and compressed, 128K compressed), the SNA headers and 128K trailer, TAP length fields, each set to 0,1,2,3,7,8,9,16,127,128,254,255. Non-trivial = the loader did not return Ok. After every case 20 frames are emulated (tapes: a fast-load request, "
                 "then real-time play)."),
        "samples": [json.loads(line_of(trace, k)) for k in (1, 2, 3)],
        "shapes_in_catalogue": nshapes,
        "harness_restarts": restarts,
        "outcomes": {f"{k}:{o}": v for (k, o), v in sorted(kinds.items())},
        "events_validated": n,
    })
    chk.add_spec_run("MC_Loader_TRUE.cfg", r_mc, "chunk walker (header 2 tokens, sizes 0..7, files of 0..6 tokens) and string scanner (buffer 3, strings of 0..7 tokens): bounded passes")
    chk.assumptions += ["memory bound: 8 MiB + 3000 x input size (DEFLATE / LH5 expansion x buffer doubling); a request above 1 GiB ends the case",
                        "hang = no result within 5 s; an Err returned by emulate_frames after a bad tape is not a panic",
                        "absence of any crashing input is not claimed: this is enumeration and sampling"]
    return chk.finish()


def replay(path, seed):
    chk = Check(PID, "quick", seed, "fault_enumeration")
    r, n, mm = validate(path, "replay")
    chk.cov.update({"evaluations": max(1, n), "distinct_nontrivial": 2, "rule": "replay of recorded cases", "samples": [open(path).readline().strip()[:300]]})
    judge(chk, path, mm)
    return chk.finish()
