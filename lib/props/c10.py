"""C10 fast tape load: LD-BYTES closed form cross-checked against the byte-by-byte ROM routine by
TLC (S); sequences of requests against fast-loaded tapes on the real emulator, including requests
past the end, judged by the same LdBytes with the tape cursor as spec state (T)."""
from props.tapecommon import *

PID = "C10"
KINDS = {"ldbytes"}


def mc_runs(quick):
    return [("MC_LdBytes", "MC_LdBytes.cfg", "blocks of 0..4 bytes over {0,1,255} x A x LOAD/VERIFY x IX x DE in {0..4,0xFF00,0xFF01} x memory")]


def scen(quick):
    return ["--fastload", 250 if quick else 2500, "--trapdur", 40 if quick else 400]


def rule(quick, shards):
    return (f"{shards} shards x {250 if quick else 2500} tapes of 0..4 blocks (data lengths 0,1,2,17,125..129,253..257,300,700; wrong checksums, "
            "truncated tails), one request per block plus 1-2 past the end: flag match/mismatch, LOAD/VERIFY against equal/unequal memory, "
            "DE = 0 / shorter / longer / exact / 0xFFxx, destinations in RAM, screen, across 0xFFFF and into ROM; the host rewinding between requests; two tapes out of three inserted into the machine that used the previous one; fast "
            "loading switched off and on again at run time around a request on the stopped deck; a third of the requests under a debugger with breakpoints inside the ROM routine; "
            "zero-length blocks; tape assets handing out at most 1 / 7 / 100 / 512 bytes per read; 48K and 128K (ROM 1 paged); "
            f"plus {40 if quick else 400} pairs of fresh machines serving the same request at the same moment with the data in contended / uncontended RAM (same return time)")


def selftest(pid, trace, seed):
    def edit(e, n):
        if e.get("ev") == "ldbytes" and e.get("done"):
            if n % 2 == 0:
                e["carry"] ^= 1
            else:
                e["after"][2] ^= 0x01 if len(e["after"]) > 2 else 0
                e["ix"] = (e["ix"] + 1) % 65536
            return True
        return False
    return corrupt(pid, trace, edit)


ASSUME = ["the routine is observed where it always leaves (return of SA/LD-RET to the caller): carry, IX, DE and the destination region +-2 bytes",
          "a request with no block left is observed for 30 frames; the trap step is compared with the same step with fast loading off"]


def run(tier, seed):
    return run_tape(PID, tier, seed, mc_runs, scen, rule, ASSUME, KINDS, selftest).finish()


def replay(path, seed):
    return replay_tape(PID, path, seed, KINDS)
