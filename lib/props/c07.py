"""C07 port decoding and floating bus: constant-level exhaustive comparison of the controller's
decode chains with the statement's masks over 65536 ports x 16 configurations (S); complete read
and write sweeps on the real emulator per configuration and floating-bus reads at chosen beam
positions (T)."""
import json, os
from vlib import *

PID = "C07"


def validate(trace, name):
    r = tlc("PortsTrace", "PortsTrace.cfg", PID, name, trace=trace, timeout=3000, heap="6g")
    summ = r.tuples("SUMMARY")
    if not r.ok or not summ:
        raise ToolError(f"PortsTrace did not complete on {trace}: {r.error}")
    return r, summ[0][1], r.tuples("MISMATCH")


def run_of(trace, lineno):
    """configuration event + the offending event"""
    cfg = None
    with open(trace) as f:
        for i, line in enumerate(f, 1):
            if '"ev":"cfg"' in line or '"ev":"fcfg"' in line:
                cfg = line
            if i == lineno:
                return [cfg, line]
    return []


def judge(chk, trace, mm):
    for m in mm:
        kind, d = m[2], m[3]
        if kind == "float":
            key = "float"
        else:
            key = f"{kind}:{sorted(d['ports'])[0] if d.get('ports') else ''}"
        chk.classify(key, f"{kind}: {str(d)[:400]}", lambda m=m, trace=trace: run_of(trace, m[1]), extra=m)


def run(tier, seed):
    chk = Check(PID, tier, seed, "model_checking")
    wd = workdir(PID)
    build_harness()
    quick = tier == "quick"
    shards = 2 if quick else 8

    def mc():
        return tlc("MC_Ports", "MC_Ports.cfg", PID, "mc", workers=1, deque=False, timeout=1500)

    def shard(k):
        trace = os.path.join(wd, f"trace{k}.ndjson")
        harness(["ports", "--out", trace, "--seed", seed * 1000 + k, "--sweeps", 2, "--first", k * 2,
                 "--floating", 200 if quick else 2000, "--ulawrites", 150 if quick else 1500])
        return (trace,) + validate(trace, f"t{k}")

    res = parallel([mc] + [lambda k=k: shard(k) for k in range(shards)])
    r = res[0]
    if not r.ok:
        chk.violation(f"MC_Ports: {r.error}")
    cases = r.tuples("CASES")
    if cases:
        r.distinct += cases[0][1]; r.generated += cases[0][1]
    chk.add_spec_run("MC_Ports.cfg", r, "all 65536 ports x 16 configurations x read/write: decode chain vs statement masks on singleton/empty ports")
    first = None
    sweeps = 0
    for trace, r, n, mm in res[1:]:
        first = first or trace
        chk.cov["events_validated"] += n
        chk.cov["states"] += r.distinct
        chk.cov["transitions"] += r.generated
        sweeps += sum(1 for l in open(trace) if '"ev":"cfg"' in l)
        judge(chk, trace, mm)
    # self-test: one wrong value in a read table, one in a write table, one floating-bus value
    st = os.path.join(wd, "selftest.ndjson")
    n = 0
    with open(first) as f, open(st, "w") as g:
        for line in f:
            e = json.loads(line)
            if e["ev"] == "rdtab" and n == 0:
                e["vals"][0xFEFE] ^= 1; n += 1
            elif e["ev"] == "wrtab" and n == 1:
                e["effects"][0x7FFD if False else 0x00FE] = 0; n += 1
            elif e["ev"] == "float" and n == 2:
                e["val"] = 0x01; e["t0"] = 100; e["t1"] = 112; n += 1
            g.write(json.dumps(e) + "\n")
    _, _, mm2 = validate(st, "selftest")
    chk.cov["selftest"] = {"corrupted_events": n, "rejected": len(mm2), "ok": len(mm2) == n and n == 3}
    if not chk.cov["selftest"]["ok"]:
        chk.selftest_failed("corrupted tables were not rejected")
    e0 = json.loads(open(first).readline())
    chk.sample({k: e0[k] for k in e0 if k != "keys"})
    chk.cov["traces_validated_against_impl"] = sweeps
    chk.cov["port_addresses_per_sweep"] = 65536
    chk.cov["rule"] = (f"{shards} shards x 2 configurations (of the 16 machine x Kempston x mouse x extender; EAR low/high): IN from all 65536 ports "
                       "with distinguishable device states and the beam outside the picture, OUT to all 65536 ports with probes of border, paging "
                       f"latch/bank marker, AY select/data read-back and extender log (the extender claims 0xCCCC, xx3B, 0x1xFD and xxFC: the last two overlap built-in devices); {150 if quick else 1500} writes of arbitrary values to arbitrary ports per shard and machine with the sound on, border colour and settled speaker/MIC level heard after each (every ordered pair of speaker/MIC settings); {200 if quick else 2000} floating-bus reads per shard and machine "
                       "(48K, 128K, 128K shadow screen) at T around line starts/ends, inside the picture and uniform")
    chk.assumptions += ["ports selecting several devices are not judged (as the statement says)",
                        "floating bus: any byte fetched in an 8-T group overlapping the IN instruction +-8 T is allowed; exactly 0xFF when none overlaps"]
    return chk.finish()


def replay(path, seed):
    chk = Check(PID, "quick", seed, "model_checking")
    r, n, mm = validate(path, "replay")
    chk.cov["events_validated"] = n
    chk.cov["states"] = max(1, r.distinct); chk.cov["transitions"] = max(1, r.generated)
    chk.cov["traces_validated_against_impl"] = 1
    chk.sample(open(path).readline().strip()[:300])
    judge(chk, path, mm)
    return chk.finish()
