"""C01 instruction results: trace validation of the real CPU against the TLA+ transcription of the
NMOS Z80 (registers, flags, MEMPTR, Q and the ordered data operations of every call)."""
from props.z80common import *

PID = "C01"
OWNED = {"state", "data"}


def args(quick):
    return ["--per", 4, "--chain", 2] if quick else ["--per", 12, "--chain", 3]


def shard_args(quick, k, shards):
    return ["--sweeps", 1 if quick else 2, "--part", k, "--parts", shards]


def rule(quick, shards):
    per, chain = (4, 2) if quick else (12, 3)
    return (f"{shards} shards x {per} boundary-biased random register/memory states for each of the 1792 encodings "
            f"(256 opcodes x pages none/CB/ED/DD/FD/DDCB/FDCB), each followed by {chain} more calls wherever PC leads; plus operand sweeps: "
            "every A x {C,N,H} for DAA/CPL/SCF/CCF (Q = F and Q = 0)/RLCA/RRCA/RLA/RRA/NEG, every value x carry for INC/DEC and the 16 "
            "rotate/shift/BIT forms of the CB page, " + ("28 x 28 boundary pairs" if quick else "all 65536 pairs") + " x carry for the eight ALU "
            "operations, 28 x 28 for RLD/RRD/CPI/CPD/CPIR/CPDR and the eight block I/O instructions, 20 x 20 word pairs x carry for ADD/ADC/SBC HL "
            "and ADD IX")


ASSUME = ["Z80.tla is an independent transcription of the documented NMOS Z80, cross-checked by the pinned z80 test tapes",
          "Q after a repeating block iteration or a bare prefix fragment is not judged (not established for the chip)",
          "INT and NMI stay low in this scenario (C02 drives them)"]


def run(tier, seed):
    return run_z80(PID, tier, seed, OWNED, args, rule, ASSUME, shards_q=4, shard_args=shard_args).finish()


def replay(path, seed):
    return replay_z80(PID, path, seed, OWNED)
