"""C05 frame length, INT pulse, conservation: small clock model on the real constants (S), calls
that cross the frame end or start inside/after the INT window, and free-running programs over many
frames under arbitrary host slicings (T)."""
from props.ulacommon import *

PID = "C05"


def scen(quick):
    return ["--machines", 4 if quick else 8, "--steps", 1500 if quick else 6000, "--edge", 1,
            "--runs", 150 if quick else 600, "--long", 60 if quick else 400]


def rule(quick, shards):
    return (f"{shards} shards: calls started in the first 40 / last 30 T-states of the frame with random IFF1/IM (INT window exactly [0,32), "
            "wrap carries the overrun); busy loops INC HL/JP with DI and with EI+IM1 handler (61 T) over 1..12 frames and HALT loops over up to "
            f"{60 if quick else 400} frames, random start T, random partition of the run into FrameCount(n) calls, both machines")


ASSUME = ["frames completed are counted by emulate_frames(FrameCount(n)) returning Completed, plus clock wraps seen while single-stepping to the loop boundary"]


def run(tier, seed):
    chk = run_ula(PID, tier, seed, ["MC_Ula.cfg", "MC_Ula128.cfg"], scen, rule, ASSUME)
    # the conservation clause as an inductive step of Ula.tla's Tick, for every frame length and every step <= a frame
    chk.cov["tlaps"] = tlaps("UlaProofs", PID, shared_with="Ula", shared=("Tick",))
    return chk.finish()


def replay(path, seed):
    return replay_ula(PID, path, seed)
