"""C19 audio pacing: scaled exhaustive mixer model (every clock-step partition, speaker writes at
any step, drain policies) (S); the real emulator with speaker/MIC toggles at chosen beam times over
sample rates 8000..384000, volumes, AY on/off, both machines and three drain policies (T)."""
import json, os
from vlib import *

PID = "C19"


def validate(trace, name):
    r = tlc("MixerTrace", "MixerTrace.cfg", PID, name, trace=trace, timeout=3000)
    summ = r.tuples("SUMMARY")
    if not r.ok or not summ:
        raise ToolError(f"MixerTrace did not complete on {trace}: {r.error}")
    return r, summ[0][1], r.tuples("MISMATCH")


def run_of(trace, lineno):
    cfg = None
    with open(trace) as f:
        for i, line in enumerate(f, 1):
            if '"ev":"acfg"' in line:
                cfg = line
            if i == lineno:
                return [cfg, line]
    return []


def judge(chk, trace, mm):
    for m in mm:
        d = m[3]
        if m[2] == "aframe":
            which = [k for k in ("count", "range", "track") if not d[k]]
            chk.classify("aframe:" + "+".join(which), f"frame at {d['rate']} Hz: {which} n={d['n']} want={d['want']} writes={d['writes']} runs={str(d['runs'])[:200]}",
                         lambda m=m, trace=trace: run_of(trace, m[1]), extra=m)
        else:
            chk.classify(m[2], f"{m[2]}: {d}", lambda m=m, trace=trace: run_of(trace, m[1]), extra=m)


def run(tier, seed):
    chk = Check(PID, tier, seed, "model_checking")
    wd = workdir(PID)
    build_harness()
    quick = tier == "quick"
    shards = 2 if quick else 10
    cfgs = ["MC_Mixer_always.cfg", "MC_Mixer_never.cfg", "MC_Mixer_any.cfg"] + ([] if quick else ["MC_Mixer_always_deep.cfg"])

    def mc(cfg):
        return cfg, tlc("MC_Mixer", cfg, PID, "mc_" + cfg, workers=2, deque=False, timeout=1200)

    def shard(k):
        trace = os.path.join(wd, f"trace{k}.ndjson")
        harness(["audio", "--out", trace, "--seed", seed * 1000 + k, "--configs", 16 if quick else 48, "--frames", 40 if quick else 200])
        return (trace,) + validate(trace, f"t{k}")

    res = parallel([lambda c=c: mc(c) for c in cfgs] + [lambda k=k: shard(k) for k in range(shards)])
    for cfg, r in res[:len(cfgs)]:
        if not r.ok:
            chk.violation(f"MC_Mixer/{cfg}: {r.error}")
        chk.add_spec_run(cfg, r, "scaled: 14 (20) T per frame, 4 (7) samples per frame, steps 1..4 T, <= 2 (3) speaker writes per frame, 2 frames")
    # unbounded arithmetic behind the pacing model (any F, any spf): cursor bounded, monotone, exact at the
    # frame ends, and the first sample carrying a new level lies in the window EdgeOk allows
    chk.cov["tlaps"] = tlaps("MixerProofs", PID, shared_with="Mixer", shared=("DuePos", "EdgeOk"))
    first = None
    frames = 0
    for trace, r, n, mm in res[len(cfgs):]:
        first = first or trace
        chk.cov["events_validated"] += n
        chk.cov["states"] += r.distinct
        chk.cov["transitions"] += r.generated
        frames += sum(1 for l in open(trace) if '"ev":"aframe"' in l)
        judge(chk, trace, mm)
    st = os.path.join(wd, "selftest.ndjson")
    n = 0
    with open(first) as f, open(st, "w") as g:
        for i, line in enumerate(f):
            e = json.loads(line)
            if e["ev"] == "aframe" and e.get("drained") and "runs" in e:
                if n == 0:
                    e["n"] += 1; n += 1
                elif n == 1 and len(e["runs"]) >= 2 and e["runs"][0][1] > 12:
                    e["runs"][0][1] -= 8; e["runs"][1][1] += 8; n += 1          # an edge 8 samples early
                elif n == 2:
                    e["maxabs_micro"] = 10_000_000; n += 1
            g.write(json.dumps(e) + "\n")
            if i > 60:
                break
    _, _, mm2 = validate(st, "selftest")
    chk.cov["selftest"] = {"corrupted_events": n, "rejected": len(mm2), "ok": len(mm2) == n and n >= 2}
    if not chk.cov["selftest"]["ok"]:
        chk.selftest_failed("corrupted frames were not all rejected")
    with open(first) as f:
        chk.sample([json.loads(next(f)) for _ in range(3)])
    chk.cov["traces_validated_against_impl"] = frames
    chk.cov["rule"] = (f"{shards} shards x {16 if quick else 48} configurations (rates 8000, 11025, 22050, 44100, 48000, 96000, 192000, 384000 and random; "
                       f"volumes 1..200; AY on/off; 48K/128K; drain always/sometimes/never) x {40 if quick else 200} frames with 0..11 writes to bits 3/4 of "
                       "port 0xFE per frame, clustered at the frame start and end and uniform")
    chk.assumptions += ["an OUT's write is effective inside its I/O cycle (T-states 7..12)",
                        "edges are judged at the ends of every run of equal samples and in the middle of every level stretch of >= 5 samples",
                        "bound: volume/200 x (0.6 beeper + 3.0 AY)"]
    return chk.finish()


def replay(path, seed):
    chk = Check(PID, "quick", seed, "model_checking")
    r, n, mm = validate(path, "replay")
    chk.cov["events_validated"] = n
    chk.cov["states"] = max(1, r.distinct); chk.cov["transitions"] = max(1, r.generated)
    chk.cov["traces_validated_against_impl"] = 1
    chk.sample(open(path).readline().strip()[:300])
    judge(chk, path, mm)
    return chk.finish()
