"""C20 VTX playback: exhaustive model of every play() chunking (mono / stereo, buffer lengths 0..5)
against the canonical event log (S); the real player over a recording AY backend, chunking
independence on the real backend, decoding of the repository's files (T)."""
import json, os
from vlib import *

PID = "C20"


def validate(trace, name):
    r = tlc("VtxTrace", "VtxTrace.cfg", PID, name, trace=trace, timeout=3000)
    summ = r.tuples("SUMMARY")
    if not r.ok or not summ:
        raise ToolError(f"VtxTrace did not complete on {trace}: {r.error}")
    return r, summ[0][1], r.tuples("MISMATCH")


def run_of(trace, lineno):
    run = []
    with open(trace) as f:
        for i, line in enumerate(f, 1):
            if '"ev":"track"' in line:
                run = []
            run.append(line)
            if i == lineno:
                break
    return run


def judge(chk, trace, mm):
    for m in mm:
        chk.classify(m[2], f"{m[2]}: {str(m[3])[:400]}", lambda m=m, trace=trace: run_of(trace, m[1]), extra=m)


def run(tier, seed):
    chk = Check(PID, tier, seed, "model_checking")
    wd = workdir(PID)
    build_harness()
    quick = tier == "quick"
    shards = 2 if quick else 8
    cfgs = [f"MC_Vtx_{st}_{spf}.cfg" for st in ("TRUE", "FALSE") for spf in (1, 2, 3)]

    def mc(cfg):
        return cfg, tlc("MC_Vtx", cfg, PID, "mc_" + cfg, workers=1, deque=False, timeout=600)

    def shard(k):
        trace = os.path.join(wd, f"trace{k}.ndjson")
        harness(["vtx", "--out", trace, "--seed", seed * 1000 + k, "--tracks", 150 if quick else 2500, "--real", 6 if quick else 60,
                 "--decode", 1 if k == 0 else 0])
        return (trace,) + validate(trace, f"t{k}")

    res = parallel([lambda c=c: mc(c) for c in cfgs] + [lambda k=k: shard(k) for k in range(shards)])
    for cfg, r in res[:len(cfgs)]:
        if not r.ok:
            chk.violation(f"MC_Vtx/{cfg}: {r.error}")
        chk.add_spec_run(cfg, r, "3 frames (one with R13=0xFF), buffer lengths 0..5, every sequence of play() calls")
    first = None
    tracks = 0
    for trace, r, n, mm in res[len(cfgs):]:
        first = first or trace
        chk.cov["events_validated"] += n
        chk.cov["states"] += r.distinct
        chk.cov["transitions"] += r.generated
        tracks += sum(1 for l in open(trace) if '"ev":"track"' in l or '"ev":"chunkings"' in l or '"ev":"decode"' in l)
        judge(chk, trace, mm)
    st = os.path.join(wd, "selftest.ndjson")
    n = 0
    with open(first) as f, open(st, "w") as g:
        for i, line in enumerate(f):
            e = json.loads(line)
            if e["ev"] == "play" and n < 2 and len(e["log"]) > 3 and len(e["out"]) > 1 and e["log"][0] != e["log"][1]:
                if n == 0:
                    e["log"][0], e["log"][1] = e["log"][1], e["log"][0]
                else:
                    e["out"][0] += 1
                n += 1
            g.write(json.dumps(e) + "\n")
            if i > 300 or e["ev"] not in ("track", "play", "seek"):
                break
    _, _, mm2 = validate(st, "selftest")
    chk.cov["selftest"] = {"corrupted_events": n, "rejected": len(mm2), "ok": len(mm2) >= n and n == 2}
    if not chk.cov["selftest"]["ok"]:
        chk.selftest_failed("corrupted play() logs were not rejected")
    with open(first) as f:
        chk.sample([json.loads(next(f)) for _ in range(2)])
    chk.cov["traces_validated_against_impl"] = tracks
    chk.cov["rule"] = (f"{shards} shards x {150 if quick else 2500} random register logs (0..5 frames, R13 = 0xFF half the time), 1..7 samples per frame via "
                       "rate/player-frequency pairs, mono and stereo, random buffer lengths 0..11 incl. 1 and odd lengths in stereo; every play() call: "
                       "ordered register writes and samples, return value, buffer contents; real AymPrecise backend: 3 chunkings bit-identical and "
                       "frames x floor(rate/50) samples; the four repository .vtx files: frame_data = transposition of the LH5 payload")
    chk.assumptions += ["arbitrary register logs reach Vtx::load only through the four repository files (no LH5 encoder available offline)",
                        "sample rate >= player frequency (at least one sample per frame)"]
    return chk.finish()


def replay(path, seed):
    chk = Check(PID, "quick", seed, "model_checking")
    r, n, mm = validate(path, "replay")
    chk.cov["events_validated"] = n
    chk.cov["states"] = max(1, r.distinct); chk.cov["transitions"] = max(1, r.generated)
    chk.cov["traces_validated_against_impl"] = 1
    chk.sample(open(path).readline().strip()[:300])
    judge(chk, path, mm)
    return chk.finish()
