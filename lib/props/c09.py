"""C09 border: scaled exhaustive painter model judged by the statement's allowed-colour sets (S);
OUTs at chosen beam times on the real emulator, every completed frame's border buffer judged row by
row with the real geometry and the 16-pixel tolerance (T)."""
import json, os
from vlib import *

PID = "C09"


def validate(trace, name):
    r = tlc("BorderTrace", "BorderTrace.cfg", PID, name, trace=trace, timeout=3000)
    summ = r.tuples("SUMMARY")
    if not r.ok or not summ:
        raise ToolError(f"BorderTrace did not complete on {trace}: {r.error}")
    return r, summ[0][1], r.tuples("MISMATCH")


def run_of(trace, lineno):
    run = []
    with open(trace) as f:
        for i, line in enumerate(f, 1):
            if '"ev":"reset"' in line:
                run = []
            run.append(line)
            if i == lineno:
                break
    # the frames before the previous one only matter through the start colour: keep reset + last 3
    return run[:1] + run[-3:] if len(run) > 4 else run


def judge(chk, trace, mm):
    for m in mm:
        d = m[3]
        chk.classify(f"border:{'color' if not d['rows'] else 'pixels'}", f"border frame: writes {d['writes']} rows {sorted(d['rows'])[:8]} "
                     f"reported {d['reported']} want {d['want']}", lambda m=m, trace=trace: run_of(trace, m[1]), extra=m)


def run(tier, seed):
    chk = Check(PID, tier, seed, "model_checking")
    wd = workdir(PID)
    build_harness()
    quick = tier == "quick"
    shards = 2 if quick else 12

    def mc(cfg):
        return cfg, tlc("MC_Border", cfg, PID, "mc_" + cfg, workers=4, deque=False, timeout=2400)

    def shard(k):
        trace = os.path.join(wd, f"trace{k}.ndjson")
        harness(["border", "--out", trace, "--seed", seed * 1000 + k, "--machines", 4 if quick else 8, "--frames", 60 if quick else 400])
        return (trace,) + validate(trace, f"t{k}")

    cfgs = ["MC_Border.cfg"] if quick else ["MC_Border.cfg", "MC_Border2.cfg"]
    res = parallel([lambda c=c: mc(c) for c in cfgs] + [lambda k=k: shard(k) for k in range(shards)])
    for cfg, r in res[:len(cfgs)]:
        if not r.ok:
            chk.violation(f"MC_Border/{cfg}: {r.error}")
        chk.add_spec_run(cfg, r, "6x4 pixel buffer, 5 T/line, 40 T/frame, writes at every T incl. retrace and after the last line; "
                         + ("1 frame x <=3 writes" if cfg == "MC_Border.cfg" else "2 frames x <=1/<=2 writes"))
    first = None
    frames = 0
    for trace, r, n, mm in res[len(cfgs):]:
        first = first or trace
        chk.cov["events_validated"] += n
        chk.cov["states"] += r.distinct
        chk.cov["transitions"] += r.generated
        frames += sum(1 for l in open(trace) if '"ev":"bframe"' in l)
        judge(chk, trace, mm)
    # self-test: one border row in a wrong colour / a wrong reported colour
    st = os.path.join(wd, "selftest.ndjson")
    n = 0
    with open(first) as f, open(st, "w") as g:
        for i, line in enumerate(f):
            e = json.loads(line)
            if e["ev"] == "bframe" and n < 2 and e.get("midload", -1) < 0:     # (the picture of a frame with a load is not judged)
                if n == 0:
                    e["rows"][5][0][0] = (e["rows"][5][0][0] + 1) % 8      # a top-border row in the wrong colour
                else:
                    e["reported"] = (e["reported"] + 1) % 8
                n += 1
            g.write(json.dumps(e) + "\n")
            if i > 200:
                break
    _, _, mm2 = validate(st, "selftest")
    chk.cov["selftest"] = {"corrupted_events": n, "rejected": len(mm2), "ok": len(mm2) >= n and n > 0}
    if not chk.cov["selftest"]["ok"]:
        chk.selftest_failed("corrupted frames were not rejected")
    with open(first) as f:
        for line in f:
            e = json.loads(line)
            if e["ev"] == "bframe":
                chk.sample({"writes": e["writes"], "reported": e["reported"], "rows_0_3": e["rows"][:3]})
                break
    chk.cov["traces_validated_against_impl"] = frames
    chk.cov["rule"] = (f"{shards} shards x {4 if quick else 8} machines x {60 if quick else 400} frames; per frame a plan of OUTs to even ports (8 kinds: "
                       "none, one, several per line, last T-states of the frame, around the first visible pixel, in horizontal retrace, after the "
                       "last visible line, up to 10 at random) through any even port (half of them xxFE), some frames starting from a freshly loaded SNA with its own "
                       "border, a sixth of the frames loading an SNA or SZX in mid-frame after the writes; the reported colour after SZX loads whose chFe byte "
                       "is anything (it is the stored border); both machines")
    chk.assumptions += ["the write of OUT (C),A takes effect inside its I/O cycle (T-states 7..12 of the instruction); tolerance 8 T (16 pixels) on either side",
                        "pixels inside the picture rectangle of the border buffer are not judged", "judging starts after the first ULA write"]
    return chk.finish()


def replay(path, seed):
    chk = Check(PID, "quick", seed, "model_checking")
    r, n, mm = validate(path, "replay")
    chk.cov["events_validated"] = n
    chk.cov["states"] = max(1, r.distinct); chk.cov["transitions"] = max(1, r.generated)
    chk.cov["traces_validated_against_impl"] = 1
    chk.sample(open(path).readline().strip()[:300])
    judge(chk, path, mm)
    return chk.finish()
