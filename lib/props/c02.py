"""C02 interrupt / NMI / HALT / prefix sequencing: (S) Z80MC exhaustive over three ROMs with every
INT/NMI level schedule, invariants written from the statement; (T) the exhaustive control matrix
and random line schedules executed on the real CPU and validated by Z80Trace."""
import json, os
from props.z80common import *

PID = "C02"
OWNED = {"state", "data", "cycles", "ack"}


def args(quick):
    return ["--per", 1 if quick else 6, "--chain", 2 if quick else 4, "--lines", 1, "--matrix", 1]


def rule(quick, shards):
    return ("control matrix: IFF1 x IFF2 x IM x halted x EI-shadow x pending prefix {none,DD,FD,ED} x INT x NMI (reachable "
            "combinations) x 25 instruction classes, each followed by chained calls with random line levels; plus random "
            "encodings with random line levels")


ASSUME = ["NMI directly after EI/DI: both accepting and postponing are allowed (the statement constrains maskable interrupts)",
          "IM 0 executes RST 38h (the Spectrum bus supplies 0xFF)"]


def run(tier, seed):
    quick = tier == "quick"

    def mc(rom):
        cfg = f"MC_Z80MC_{rom}_quick.cfg" if quick else f"MC_Z80MC_{rom}.cfg"
        return rom, cfg, tlc("MC_Z80MC", cfg, PID, "mc" + rom, workers=4, deque=False, timeout=1500)

    def gen(rom):
        # spec -> impl: every behaviour of the specification CPU of length 5 (7) on this ROM, replayed on the real CPU
        cfg = f"GenZ80MC_{rom}.cfg" if quick else f"GenZ80MC_{rom}_deep.cfg"
        r = tlc("GenZ80MC", cfg, PID, "gen" + rom, workers=1, deque=False, timeout=1500)
        beh = r.tuples("REPLAY")
        if not r.ok or not beh:
            raise ToolError(f"GenZ80MC {rom}: {r.error}")
        wd = workdir(PID)
        vec = os.path.join(wd, f"replay{rom}.ndjson")
        with open(vec, "w") as f:
            for t in beh:
                f.write(json.dumps({"rom": t[1], "hist": t[2], "final": t[3]}) + "\n")
        trace = os.path.join(wd, f"replay{rom}_trace.ndjson")
        harness(["z80", "--out", trace, "--replaymc", vec])
        rv, n, mm = validate(trace, "replay" + rom, PID)
        return rom, len(beh), trace, rv, n, mm

    build_harness()
    both = parallel([lambda r=r: mc(r) for r in "ABC"] + [lambda r=r: gen(r) for r in "ABC"])
    mcs, gens = both[:3], both[3:]
    chk = run_z80(PID, tier, seed, OWNED, args, rule, ASSUME, shards_q=1, shards_t=6)
    replayed = 0
    for rom, nb, trace, rv, n, mm in gens:
        replayed += nb
        chk.cov["events_validated"] += n
        chk.cov["states"] += rv.distinct
        chk.cov["transitions"] += rv.generated
        for m in mm:
            kinds, fields = kinds_of(m[3])
            chk.classify(f"replay:{rom}:{','.join(fields)}", f"TLC-generated behaviour {m[2]} on ROM {rom}: the real CPU differs in {fields}",
                         extract_run(trace, m[1])[-8:], extra=m)
    chk.cov["spec_behaviours_replayed_on_impl"] = replayed
    for rom, cfg, r in mcs:
        if not r.ok:
            chk.violation(f"Z80MC ROM {rom}: {r.error}")
        chk.add_spec_run(cfg, r, f"16-byte ROM {rom}, all INT/NMI/bus-byte schedules, depth {14 if quick else 22}")
    return chk.finish()


def replay(path, seed):
    return replay_z80(PID, path, seed, OWNED)
