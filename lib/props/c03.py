"""C03 T-states and bus cycles: the same events as C01; this check owns the cycle list (kind,
address, clocks of every memory/internal/port cycle in order) and the interrupt-entry totals."""
from props.z80common import *

PID = "C03"
OWNED = {"cycles", "ack"}


def args(quick):
    return ["--per", 4, "--chain", 2, "--lines", 1] if quick else ["--per", 12, "--chain", 3, "--lines", 1]


def rule(quick, shards):
    per, chain = (4, 2) if quick else (12, 3)
    return (f"{shards} shards x {per} random states per encoding x 1792 encodings with INT/NMI lines driven at random "
            f"(interrupt entries 13/19/11 T), {chain} chained calls; cycle lists compared element by element")


ASSUME = ["acknowledge cycles are compared by their memory cycles in order and by total T-states (the position of the "
          "internal wait inside the acknowledge is not documented)",
          "internal delay T-states must be presented one at a time with the documented address"]


def run(tier, seed):
    return run_z80(PID, tier, seed, OWNED, args, rule, ASSUME, shards_q=4).finish()


def replay(path, seed):
    return replay_z80(PID, path, seed, OWNED)
