"""C03 T-states and bus cycles: the same events as C01; this check owns the cycle list (kind,
address, clocks of every memory/internal/port cycle in order) and the interrupt-entry totals."""
from props.z80common import *

PID = "C03"
OWNED = {"cycles", "ack"}


def args(quick):
    return ["--per", 4, "--chain", 2, "--lines", 1] if quick else ["--per", 12, "--chain", 3, "--lines", 1]


def shard_args(quick, k, shards):
    # the operand sweeps of C01 select timing variants too (A == (HL) for CPIR/CPDR with BC = 1, 2, 0; B and BC around
    # the end of block I/O and block moves)
    return ["--sweeps", 1 if quick else 2, "--part", k, "--parts", shards]


def rule(quick, shards):
    per, chain = (4, 2) if quick else (12, 3)
    return (f"{shards} shards x {per} random states per encoding x 1792 encodings with INT/NMI lines driven at random "
            f"(interrupt entries 13/19/11 T), {chain} chained calls; plus the operand sweeps (every A against (HL) = A-1, A, A+1 with BC = 1, 2, 0 "
            "for CPIR/CPDR, boundary pairs for the block instructions); cycle lists compared element by element")


ASSUME = ["acknowledge cycles are compared by their memory cycles in order and by total T-states (the position of the "
          "internal wait inside the acknowledge is not documented)",
          "internal delay T-states must be presented one at a time with the documented address"]


def run(tier, seed):
    return run_z80(PID, tier, seed, OWNED, args, rule, ASSUME, shards_q=4, shard_args=shard_args).finish()


def replay(path, seed):
    return replay_z80(PID, path, seed, OWNED)
