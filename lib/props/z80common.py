"""Shared by C01, C02, C03: record emulate() calls of the real Z80 through the recording bus and
validate them with Z80Trace.tla."""
import json, os, random
from vlib import *


def validate(trace, name, pid):
    r = tlc("Z80Trace", "Z80Trace.cfg", pid, name, trace=trace, timeout=3000)
    summ = r.tuples("SUMMARY")
    if not r.ok or not summ:
        raise ToolError(f"Z80Trace did not complete on {trace}: {r.error}")
    return r, summ[0][1], r.tuples("MISMATCH")


def line_of(trace, n):
    with open(trace) as f:
        for i, line in enumerate(f, 1):
            if i == n:
                return line
    return ""


def kinds_of(classes):
    """Which parts of the statement are broken for EVERY allowed outcome (the observed call is
    explained by none). Returns set of 'state','data','cycles','ack' and the differing fields."""
    kinds = None
    fields = set()
    for c in classes:
        k = set()
        if c["state"]:
            k.add("state")
        if not c["data"]:
            k.add("data")
        if not c["ops"]:
            k.add("cycles")
        if not c["ack"]:
            k.add("ack")
        kinds = k if kinds is None else (kinds & k)
        fields |= set(c["state"])
    return kinds or set(), sorted(fields)


def selftest(pid, trace, nlines, seed):
    """Binding demonstration: corrupt one logged field of a few events and require that exactly
    those events are rejected."""
    rnd = random.Random(seed)
    picks = sorted(rnd.sample(range(1, nlines + 1), min(6, nlines)))
    out = os.path.join(workdir(pid), "selftest.ndjson")
    with open(trace) as f, open(out, "w") as g:
        k = 0
        for i, line in enumerate(f, 1):
            if i in picks:
                e = json.loads(line)
                which = k % 3
                if which == 0:
                    e["post"]["f"] ^= 0x08
                elif which == 1:
                    e["post"]["wz"] = (e["post"]["wz"] + 1) % 65536
                else:
                    e["ops"][0][2] += 1     # first memory cycle one T-state longer
                k += 1
                g.write(json.dumps(e) + "\n")
            if i > picks[-1]:
                break
    r = tlc("Z80Trace", "Z80Trace.cfg", pid, "selftest", trace=out, timeout=600)
    rejected = {m[1] for m in r.tuples("MISMATCH")}
    ok = rejected == set(range(1, len(picks) + 1))
    return ok, len(picks), len(rejected)


def run_z80(pid, tier, seed, owned, scen_args, rule, assumptions, shards_q=2, shards_t=12, shard_args=None):
    """owned: set of mismatch kinds this property is responsible for."""
    chk = Check(pid, tier, seed, "model_checking")
    wd = workdir(pid)
    build_harness()
    quick = tier == "quick"
    shards = shards_q if quick else shards_t

    def shard(k):
        trace = os.path.join(wd, f"trace{k}.ndjson")
        harness(["z80", "--out", trace, "--seed", seed * 1000 + k] + scen_args(quick) + (shard_args(quick, k, shards) if shard_args else []))
        r, n, mm = validate(trace, f"t{k}", pid)
        return trace, r, n, mm

    results = parallel([lambda k=k: shard(k) for k in range(shards)])
    for trace, r, n, mm in results:
        chk.cov["events_validated"] += n
        chk.cov["states"] += r.distinct
        chk.cov["transitions"] += r.generated
        for m in mm:
            kinds, fields = kinds_of(m[3])
            mine = kinds & owned
            if not mine:
                continue
            enc = m[2].split("/")[0]
            key = f"{'+'.join(sorted(mine))}:{enc}:{','.join(fields) if 'state' in mine else ''}"
            c0 = m[3][0]
            chk.classify(key, f"{m[2]}: {sorted(mine)} want {c0.get('want')} got {c0.get('got')} wantops {c0.get('wantops')}",
                         lambda m=m, trace=trace: [line_of(trace, m[1])], extra=m)
    encs = set()
    with open(results[0][0]) as f:
        for line in f:
            encs.add(json.loads(line)["tag"].split("/")[0])
    e0 = json.loads(open(results[0][0]).readline())
    chk.sample({"tag": e0["tag"], "pre": e0["pre"], "ops": e0["ops"], "post": e0["post"]})
    ok, n, rej = selftest(pid, results[0][0], 1000, seed)
    chk.cov["selftest"] = {"corrupted_events": n, "rejected": rej, "ok": ok}
    if not ok:
        chk.selftest_failed("corrupted events were not all rejected")
    chk.cov["traces_validated_against_impl"] = chk.cov["events_validated"]
    chk.cov["distinct_tags_first_shard"] = len(encs)
    chk.cov["rule"] = rule(quick, shards)
    chk.assumptions += assumptions
    return chk


def replay_z80(pid, path, seed, owned):
    chk = Check(pid, "quick", seed, "model_checking")
    r, n, mm = validate(path, "replay", pid)
    chk.cov["events_validated"] = n
    chk.cov["states"] = max(1, r.distinct); chk.cov["transitions"] = max(1, r.generated)
    chk.cov["traces_validated_against_impl"] = n
    chk.sample(open(path).readline().strip()[:400])
    for m in mm:
        kinds, fields = kinds_of(m[3])
        mine = kinds & owned
        if mine:
            enc = m[2].split("/")[0]
            chk.classify(f"{'+'.join(sorted(mine))}:{enc}:{','.join(fields) if 'state' in mine else ''}",
                         f"{m[2]}: {sorted(mine)}", [line_of(path, m[1])], extra=m)
    return chk.finish()
