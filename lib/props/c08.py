"""C08 displayed picture: the standard decode (Screen.tla) against the canvas the host receives,
for screen contents delivered by every path, over flash periods, both screen banks, and for single
bytes changed at known beam times."""
import json, os
from vlib import *

PID = "C08"


def validate(trace, name):
    r = tlc("ScreenTrace", "ScreenTrace.cfg", PID, name, trace=trace, timeout=3000, heap="6g")
    summ = r.tuples("SUMMARY")
    if not r.ok or not summ:
        raise ToolError(f"ScreenTrace did not complete on {trace}: {r.error}")
    return r, summ[0][1], r.tuples("MISMATCH")


def run_of(trace, lineno):
    run = []
    with open(trace) as f:
        for i, line in enumerate(f, 1):
            if '"ev":"reset"' in line:
                run = []
            if '"ev":"frame"' not in line or i == lineno:
                run.append(line)
            if i == lineno:
                break
    return run


def judge(chk, trace, mm):
    for m in mm:
        kind, path, d = m[2], m[3], m[4]
        chk.classify(f"{kind}:{path}", f"{kind} on path {path}: {d}", lambda m=m, trace=trace: run_of(trace, m[1]), extra=m)


def run(tier, seed):
    chk = Check(PID, tier, seed, "model_checking")
    wd = workdir(PID)
    build_harness()
    quick = tier == "quick"
    shards = 2 if quick else 12

    def mc():
        return tlc("MC_Screen", "MC_Screen.cfg", PID, "mc", workers=1, deque=False, timeout=600)

    def shard(k):
        trace = os.path.join(wd, f"trace{k}.ndjson")
        harness(["screen", "--out", trace, "--seed", seed * 1000 + k, "--rounds", 1 if quick else 3, "--frames", 2,
                 "--long", 300, "--beam", 6 if quick else 12])
        return (trace,) + validate(trace, f"t{k}")

    res = parallel([mc] + [lambda k=k: shard(k) for k in range(shards)])
    r = res[0]
    if not r.ok:
        chk.violation(f"MC_Screen: {r.error}")
    cases = r.tuples("CASES")
    if cases:
        r.distinct += cases[0][1]; r.generated += cases[0][1]
    chk.add_spec_run("MC_Screen.cfg", r, "all 6912 offsets: the implementation's address->(line,col) maps invert the statement's offset formulas")
    first = None
    frames = 0
    for trace, r, n, mm in res[1:]:
        first = first or trace
        chk.cov["events_validated"] += n
        chk.cov["states"] += r.distinct
        chk.cov["transitions"] += r.generated
        frames += sum(1 for l in open(trace) if '"ev":"frame"' in l or '"ev":"wframe"' in l)
        judge(chk, trace, mm)
    # self-test: one pixel of one canvas changed
    st = os.path.join(wd, "selftest.ndjson")
    n = 0
    with open(first) as f, open(st, "w") as g:
        for i, line in enumerate(f):
            if '"ev":"frame"' in line and n == 0:
                e = json.loads(line); e["canvas"][256 * 100 + 77] ^= 1; line = json.dumps(e) + "\n"; n += 1
            g.write(line)
            if i > 12:
                break
    _, _, mm2 = validate(st, "selftest")
    chk.cov["selftest"] = {"corrupted_events": n, "rejected": len(mm2), "ok": len(mm2) >= 1}
    if not chk.cov["selftest"]["ok"]:
        chk.selftest_failed("a corrupted pixel was not rejected")
    with open(first) as f:
        chk.sample([json.loads(next(f)) for _ in range(1)][0])
    chk.cov["traces_validated_against_impl"] = frames
    chk.cov["pixels_compared"] = frames * 49152
    chk.cov["rule"] = (f"{shards} shards x {1 if quick else 3} rounds x 21 delivery paths (CPU writes via 0x4000 and via 0xC000 with bank 5 / bank 7 paged, "
                       "paging locked followed by a write that would switch screens, an SNA snapshot taken with the stack inside the display file, LDIR, tape fast-load (48K to 0x4000; 128K through 0xC000 into bank 5 and into the displayed shadow bank 7), 48K/128K SNA, stored/compressed/shuffled SZX, SCR, pokes; 48K, 128K, shadow screen) with random and structured "
                       "screens; >= 2 judged frames per path, one path per round over 300 frames (every frame judged, at 64 sampled pixels between the full canvases: the FLASH rhythm); per path ~100 writes (poke / CPU / bus) that the "
                       "memory map keeps out of the visible display file (beyond it, other banks, the other screen bank, addresses sharing low address "
                       "bits with display bytes) followed by judged frames; and single-byte writes at beam time +-40 T")
    chk.assumptions += ["the two frames after a delivery are not judged (memory changed during them); they count for the flash phase",
                        "flash phase is inferred: some phase in 0..31 must explain every frame since the last reset"]
    return chk.finish()


def replay(path, seed):
    chk = Check(PID, "quick", seed, "model_checking")
    r, n, mm = validate(path, "replay")
    chk.cov["events_validated"] = n
    chk.cov["states"] = max(1, r.distinct); chk.cov["transitions"] = max(1, r.generated)
    chk.cov["traces_validated_against_impl"] = 1
    chk.sample(open(path).readline().strip()[:300])
    judge(chk, path, mm)
    return chk.finish()
