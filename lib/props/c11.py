"""C11 waveform of a playing tape: scaled exhaustive model (every step partition) judged by the
statement-shaped observer (S); whole tapes played on the real pulse generator with random steps of
0..16 T, every edge judged with the statement's numbers; the ROM loader in real time (T)."""
from props.tapecommon import *

PID = "C11"
KINDS = {"waveform", "wholetape", "ldbytes", "frozen", "taperr"}


def mc_runs(quick):
    return [("MC_Tape", f"MC_Tape_play{t}.cfg", "scaled constants (pilot 12 x 4/3, sync 4/8, bits 16/20, pause 30, 2-bit bytes), steps {0,1,2}, play only")
            for t in (1, 2, 3)]


def scen(quick):
    return ["--waveform", 8 if quick else 40, "--romload", 8 if quick else 60, "--emudeck", 10 if quick else 30]


def rule(quick, shards):
    return (f"{shards} shards x {8 if quick else 40} tapes of 1..3 blocks (2..40 bytes, flag 0x00 and others, all bit patterns) played to the "
            f"automatic stop under every step policy (uniform 0..16, constant 1..16, 12..16, mostly 16, machine-like <= 8): one event per edge; plus {8 if quick else 60} tapes loaded by the ROM's LD-BYTES in real time "
            "(requests issued in the pause; fast loading enabled in half of them: a playing tape is read from its waveform either way, so a request "
            "takes at least the time of the block's pilot tone), 48K and 128K; "
            f"plus {10 if quick else 30} tapes played twice on the whole machine through the emulator's API while the CPU runs one of five instruction "
            "mixes (busy loop, NOPs, DJNZ loops, halted between interrupts, halted + work), the EAR level sampled after every instruction "
            "(pulse lengths known to within the longest instruction, 28 T)")


def selftest(pid, trace, seed):
    def edit(e, n):
        if e.get("ev") == "edge" and 800 < e["dt"] < 900:
            e["dt"] += 40 + n      # a zero-bit pulse 40 T too long
            return True
        return False
    return corrupt(pid, trace, edit, limit=2)


ASSUME = ["pause accepted between 0.5 and 2 s; pilot count 8063 +-1 (header) or >= 3222 (the first pulse may merge with the silence)",
          "real-time loads use blocks of <= 42 bytes so that every request is issued inside the following pause"]


def run(tier, seed):
    return run_tape(PID, tier, seed, mc_runs, scen, rule, ASSUME, KINDS, selftest).finish()


def replay(path, seed):
    return replay_tape(PID, path, seed, KINDS)
