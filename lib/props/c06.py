"""C06 memory map and 128K paging: exhaustive TLC model (impl-shaped latch refines the statement)
plus trace validation of random and exhaustive-latch histories run on the real emulator."""
import os
from vlib import *

PID = "C06"


def validate(chk, trace, name):
    r = tlc("PagingTrace", "PagingTrace.cfg", PID, name, trace=trace)
    summ = r.tuples("SUMMARY")
    if not r.ok or not summ:
        raise ToolError(f"PagingTrace did not complete: {r.error}")
    chk.cov["events_validated"] += summ[0][1]
    mism = r.tuples("MISMATCH")
    for mm in mism:
        line = mm[1]
        run = extract_run(trace, line)
        chk.classify("read", f"memory read disagrees with the memory map: {mm[3]}", run, extra=mm)
    return r, len(mism)


def run(tier, seed):
    chk = Check(PID, tier, seed, "model_checking")
    wd = workdir(PID)
    quick = tier == "quick"
    # 1. spec alone
    cfg = "MC_Paging_quick.cfg" if quick else "MC_Paging.cfg"
    build_harness()
    trace = os.path.join(wd, "trace.ndjson")
    hist, ln, exh = (60, 200, 1) if quick else (1500, 300, 2)

    def spec():
        return tlc("MC_Paging", cfg, PID, "mc", workers=4 if quick else 8, deque=False, timeout=1500)

    def rec():
        harness(["paging", "--out", trace, "--seed", seed, "--histories", hist, "--len", ln,
                 "--exhaustive", exh])
        return validate(chk, trace, "trace")

    r_mc, (r_tr, nm) = parallel([spec, rec])
    if not r_mc.ok:
        chk.violation("exhaustive Paging model violates an invariant: " + r_mc.error)
    chk.add_spec_run(cfg, r_mc, "PAGE=1 Data={0,1} " + ("64 latch values x 3 ports" if quick else "256 latch values x 5 ports"))
    runs = sum(1 for l in open(trace) if '"ev":"reset"' in l)
    chk.cov["traces_validated_against_impl"] = runs
    chk.cov["rule"] = ("random histories of paging/non-paging OUTs, reads/writes at random and hot addresses and files that the machine rejects, "
                       "both machines, marker and embedded ROMs; plus every latch history v1;v2 "
                       f"(v1 in 0..255, v2 in {'0..255' if exh == 2 else '16 values'}) with one probe per window")
    with open(trace) as f:
        chk.sample([next(f).strip() for _ in range(6)])
    chk.assumptions += ["ports used select only the paging latch or no paging at all (C07 covers decoding)",
                        "RAM starts zeroed in a fresh emulator"]
    return chk.finish()


def replay(path, seed):
    chk = Check(PID, "quick", seed, "model_checking")
    r, nm = validate(chk, path, "replay")
    chk.cov["states"] = max(1, r.distinct); chk.cov["transitions"] = max(1, r.generated)
    chk.cov["traces_validated_against_impl"] = 1
    chk.sample(open(path).readline().strip())
    return chk.finish()
