"""C12 deck commands: scaled exhaustive model with every interleaving of up to 6 (9) play/stop/
rewind commands and time steps (S); random command histories on the real player, edges measured in
playing time and judged by the same observer (T)."""
from props.tapecommon import *

PID = "C12"
KINDS = {"waveform", "wholetape", "frozen", "taperr", "stopignored"}


def mc_runs(quick):
    return [("MC_Tape", f"MC_Tape_cmds{t}.cfg" if quick else f"MC_Tape_cmds{t}_deep.cfg",
             f"scaled constants, steps {{0,1,2}}, <= {6 if quick else 9} commands among play/stop/rewind at any point") for t in (1, 2, 3)]


def scen(quick):
    return ["--commands", 120 if quick else 1500, "--len", 14, "--emudeck", 10 if quick else 30]


def rule(quick, shards):
    return (f"{shards} shards x {120 if quick else 1500} histories of 14 steps over play / stop / rewind / let time pass (0..40 T, a few pulses, "
            "thousands of pilot pulses, seconds - i.e. mid-pilot, mid-sync, mid-byte, in the pause, after the end), then the tape runs out; "
            f"plus {10 if quick else 30} decks driven through the emulator's own play_tape / stop_tape / rewind_tape on a running machine: a few commands "
            "in the first pass, the automatic stop, silence, PLAY again and the whole tape a second time")


def selftest(pid, trace, seed):
    def edit(e, n):
        if e.get("ev") == "idle":
            e["changed"] = True
            return True
        return False
    return corrupt(pid, trace, edit, limit=3)


ASSUME = ["playing time is the time passed while the deck reports not-stopped before the call",
          "a level change caused directly by a rewind command is not judged; after any (re)start at most two stray edges may precede the first clean pilot pulse"]


def run(tier, seed):
    return run_tape(PID, tier, seed, mc_runs, scen, rule, ASSUME, KINDS, selftest).finish()


def replay(path, seed):
    return replay_tape(PID, path, seed, KINDS)
