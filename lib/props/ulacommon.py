"""Shared by C04 and C05: machine-level timing traces validated by UlaTrace.tla."""
import json, os, random
from vlib import *


def validate(trace, name, pid):
    r = tlc("UlaTrace", "UlaTrace.cfg", pid, name, trace=trace, timeout=3000)
    summ = r.tuples("SUMMARY")
    if not r.ok or not summ:
        raise ToolError(f"UlaTrace did not complete on {trace}: {r.error}")
    return r, summ[0][1], r.tuples("MISMATCH")


def run_with_reset(trace, lineno):
    """the reset event governing line `lineno` plus that line"""
    reset, target = None, None
    with open(trace) as f:
        for i, line in enumerate(f, 1):
            if '"ev":"reset"' in line:
                reset = line
            if i == lineno:
                target = line
                break
    return [reset, target]


def selftest(pid, trace, seed):
    """corrupt the observed clock of a few events by one T-state: each must be rejected"""
    out = os.path.join(workdir(pid), "selftest.ndjson")
    n = 0
    with open(trace) as f, open(out, "w") as g:
        for line in f:
            e = json.loads(line)
            if e["ev"] == "reset":
                g.write(line)
            elif e["ev"] == "mstep" and n < 5:
                e["t1"] = e["t1"] + 1
                g.write(json.dumps(e) + "\n")
                n += 1
            elif e["ev"] == "run" and n < 8:
                e["iters"] += 1
                g.write(json.dumps(e) + "\n")
                n += 1
            if n >= 8:
                break
    r, total, mm = validate(out, "selftest", pid)
    return len(mm) == n and n > 0, n, len(mm)


def run_ula(pid, tier, seed, mc_cfgs, scen, rule, assumptions):
    chk = Check(pid, tier, seed, "model_checking")
    wd = workdir(pid)
    build_harness()
    quick = tier == "quick"
    shards = 2 if quick else 12

    def mc(cfg):
        return cfg, tlc("MC_Ula", cfg, pid, "mc_" + cfg, workers=4, deque=False, timeout=1500)

    def shard(k):
        trace = os.path.join(wd, f"trace{k}.ndjson")
        harness(["timing", "--out", trace, "--seed", seed * 1000 + k] + scen(quick))
        return (trace,) + validate(trace, f"t{k}", pid)

    res = parallel([lambda c=c: mc(c) for c in mc_cfgs] + [lambda k=k: shard(k) for k in range(shards)])
    for cfg, r in res[:len(mc_cfgs)]:
        if not r.ok:
            chk.violation(f"MC_Ula/{cfg}: {r.error}")
        chk.add_spec_run(cfg, r, "real constants; ASSUME: impl-shaped delay/frame/INT = statement for every T of both frames")
    first = None
    for trace, r, n, mm in res[len(mc_cfgs):]:
        first = first or trace
        chk.cov["events_validated"] += n
        chk.cov["states"] += r.distinct
        chk.cov["transitions"] += r.generated
        for m in mm:
            d = m[3]
            kind = "clock" if "got" in d else "run"
            chk.classify(f"{kind}:{m[2]}", f"{m[2]}: {d}", run_with_reset(trace, m[1]), extra=m)
    with open(first) as f:
        lines = [next(f) for _ in range(3)]
    e = json.loads(lines[1])
    chk.sample({k: e[k] for k in e if k not in ("env",)})
    ok, n, rej = selftest(pid, first, seed)
    chk.cov["selftest"] = {"corrupted_events": n, "rejected": rej, "ok": ok}
    if not ok:
        chk.selftest_failed("corrupted events were not all rejected")
    chk.cov["traces_validated_against_impl"] = chk.cov["events_validated"]
    chk.cov["rule"] = rule(quick, shards)
    chk.assumptions += assumptions
    return chk


def replay_ula(pid, path, seed):
    chk = Check(pid, "quick", seed, "model_checking")
    r, n, mm = validate(path, "replay", pid)
    chk.cov["events_validated"] = n
    chk.cov["states"] = max(1, r.distinct); chk.cov["transitions"] = max(1, r.generated)
    chk.cov["traces_validated_against_impl"] = n
    chk.sample(open(path).readline().strip()[:300])
    for m in mm:
        chk.classify(f"replay:{m[2]}", f"{m[2]}: {m[3]}", run_with_reset(path, m[1]), extra=m)
    return chk.finish()
