"""C16 determinism and independence from the host's driving: the host loop over an abstract
deterministic machine under every sequence of FrameCount / Max / breakpoint calls (S); scenarios
(ROM boot, tape, key script) run on the real emulator under 20 drivings with a digest of the whole
machine after every frame (T)."""
import json, os
from vlib import *

PID = "C16"


def validate(trace, name):
    r = tlc("EmuTrace", "EmuTrace.cfg", PID, name, trace=trace, timeout=3000)
    summ = r.tuples("SUMMARY")
    if not r.ok or not summ:
        raise ToolError(f"EmuTrace did not complete on {trace}: {r.error}")
    return r, summ[0][1], r.tuples("MISMATCH")


def run_of(trace, lineno):
    """reference run of the scenario + the offending run"""
    ref, scen = None, None
    with open(trace) as f:
        for i, line in enumerate(f, 1):
            s = json.loads(line)["scenario"]
            if s != scen:
                scen, ref = s, line
            if i == lineno:
                return [ref, line]
    return []


def judge(chk, trace, mm):
    for m in mm:
        d = m[3]
        chk.classify(f"driving:{m[2]}", f"driving {m[2]}: scenario {d['scenario']} differs from the reference at frames "
                     f"{sorted(d['frames'])[:6]} audio={d['audio']} stuck={d['stuck']}", lambda m=m, trace=trace: run_of(trace, m[1]), extra=m)


def asset_run_of(trace, lineno):
    """the asset run (from its aopen event) up to the offending call"""
    run = []
    with open(trace) as f:
        for i, line in enumerate(f, 1):
            if '"ev":"aopen"' in line:
                run = []
            run.append(line)
            if i == lineno:
                break
    return run


def assets(chk, wd, seed, quick):
    """asset clause: the repository's asset implementations against the stream contract of Asset.tla"""
    r_mc = tlc("MC_Asset", "MC_Asset.cfg", PID, "mc_asset", workers=2, deque=False, timeout=900)
    if not r_mc.ok:
        chk.violation(f"MC_Asset: {r_mc.error}")
    chk.add_spec_run("MC_Asset.cfg", r_mc, "files of 0..4 bytes, any position, read_exact of 0..5 bytes over every short-read pattern and both end-of-file conventions: contract, progress, termination")
    trace = os.path.join(wd, "assets.ndjson")
    harness(["assets", "--out", trace, "--seed", seed, "--files", 10 if quick else 80, "--ops", 60, "--big", 2 if quick else 4, "--huge", 0 if quick else 1])
    r = tlc("AssetTrace", "AssetTrace.cfg", PID, "assets", trace=trace, timeout=3000)
    summ = r.tuples("SUMMARY")
    if not r.ok or not summ:
        raise ToolError(f"AssetTrace did not complete on {trace}: {r.error}")
    chk.cov["events_validated"] += summ[0][1]
    chk.cov["states"] += r.distinct
    chk.cov["transitions"] += r.generated
    seen = set()
    for m in r.tuples("MISMATCH"):
        if m[2] in seen:
            continue        # one report per implementation: later calls of a run cascade
        seen.add(m[2])
        chk.classify(f"asset:{m[2]}:{m[3]['op']}", f"asset {m[2]}: {m[3]['op']}{m[3]['arg']} returned {str(m[3]['res'])[:200]} with the position in "
                     f"{sorted(m[3]['positions'])[:4]} of {m[3]['len']} bytes", lambda m=m: asset_run_of(trace, m[1]), extra=m)
    # binding self-test: one wrong byte, one wrong position
    st = os.path.join(wd, "assets_selftest.ndjson")
    n = 0
    tail = 0
    with open(trace) as f, open(st, "w") as g:
        for i, line in enumerate(f):
            e = json.loads(line)
            if e.get("op") == "read" and e["res"]["kind"] == "ok" and e["res"]["bytes"] and n == 0:
                e["res"]["bytes"][0] ^= 1; n += 1
                at = i
            elif e.get("op") == "seek" and e.get("whence") == "start" and e["res"]["kind"] == "ok" and n == 1 and i > at + 70:
                e["res"]["pos"] += 1; n += 1        # an absolute seek reports exactly the requested position
            g.write(json.dumps(e) + "\n")
            if n == 2:
                tail += 1
                if tail > 30:
                    break
    r2 = tlc("AssetTrace", "AssetTrace.cfg", PID, "assets_selftest", trace=st, timeout=600)
    rejected = len({m[2] for m in r2.tuples("MISMATCH")})
    chk.cov["selftest_assets"] = {"corrupted_events": n, "rejected_runs": rejected, "ok": n == 2 and rejected >= 2}
    if not chk.cov["selftest_assets"]["ok"]:
        chk.selftest_failed("corrupted asset calls were not rejected")
    return summ[0][1]


def run(tier, seed):
    chk = Check(PID, tier, seed, "model_checking")
    wd = workdir(PID)
    build_harness()
    quick = tier == "quick"
    shards = 2 if quick else 12

    def mc():
        return tlc("MC_Emu", "MC_Emu.cfg", PID, "mc", workers=2, deque=False, timeout=900)

    def shard(k):
        trace = os.path.join(wd, f"trace{k}.ndjson")
        harness(["determ", "--out", trace, "--seed", seed * 1000 + k, "--scenarios", 4 if quick else 8, "--base", 4 * (k % 2), "--frames", 100 if quick else 600, "--edge", 2 if quick else 6])
        return (trace,) + validate(trace, f"t{k}")

    res = parallel([mc] + [lambda k=k: shard(k) for k in range(shards)])
    n_assets = assets(chk, wd, seed, quick)
    r = res[0]
    if not r.ok:
        chk.violation(f"MC_Emu: {r.error}")
    chk.add_spec_run("MC_Emu.cfg", r, "F=23 T/frame, instructions of 4..8 T, <= 6 calls among FrameCount(1..3) and Max with 3 stopwatch scripts, breakpoints on any subset of 4 instruction numbers")
    first = None
    runs = 0
    for trace, r, n, mm in res[1:]:
        first = first or trace
        chk.cov["events_validated"] += n
        chk.cov["states"] += r.distinct
        chk.cov["transitions"] += r.generated
        runs += n
        judge(chk, trace, mm)
    st = os.path.join(wd, "selftest.ndjson")
    with open(first) as f, open(st, "w") as g:
        g.write(f.readline())
        e = json.loads(f.readline()); e["digests"][50][1][0] ^= 1; g.write(json.dumps(e) + "\n")
        e = json.loads(f.readline()); g.write(json.dumps(e) + "\n")
    _, _, mm2 = validate(st, "selftest")
    chk.cov["selftest"] = {"corrupted_events": 1, "rejected": len(mm2), "ok": len(mm2) == 1}
    if len(mm2) != 1:
        chk.selftest_failed("a corrupted digest was not rejected")
    e = json.loads(open(first).readline())
    chk.sample({"scenario": e["scenario"], "driving": e["driving"], "digests": e["digests"][:3], "audio": e["audio"]})
    chk.cov["traces_validated_against_impl"] = runs
    chk.cov["rule"] = (f"{shards} shards x {4 if quick else 8} scenarios (48K/128K: ROM boot with a two-block tape started at a random frame; tape inserted with the "
                       "autoload snapshot and fast loading enabled, the tape stopped (requests served by the fast-load trap) or playing from the start "
                       f"(real-time load); a program that programs and reads back the AY and reads the Kempston and keyboard/EAR ports every frame; random key presses at frame boundaries; plus programs whose jump to the fast-load trap address is the very instruction during which a frame ends, or one a few T-states beside it) x {100 if quick else 600} frames x 20 drivings: FrameCount(1) twice (repeatability), random FrameCount(n) partitions, "
                       "Max mode, breakpoints every k instructions with resume (k random) and after every instruction (so that a stop coincides with every other per-instruction event), FrameCount(n) with breakpoint stops (twice), a different way of driving for every call (twice), sound off, AY off, both switched at run time every four frames, audio never drained, tape asset "
                       "with 1-byte reads, 7-byte reads with Ok(0) at EOF, a real file, gzip; digest = registers + clock + all RAM + screen and border "
                       "buffers + border colour + paging; audio stream compared where the drain policy is the same. Asset clause: "
                       f"{10 if quick else 80} files of 0..64 bytes (and {2 if quick else 4} of 64 KiB..1.2 MB: longer than any snapshot, like a long tape image) x 6 asset implementations (BufferCursor, FileAsset, GzipAsset, DynamicAsset around each) "
                       f"x 60 random read / read_exact / seek calls ({n_assets} calls) judged by Asset.tla")
    chk.assumptions += ["frames are counted by Completed / Timeout returns; host inputs are applied at frame numbers that are multiples of 4, where every driving hands control back"]
    return chk.finish()


def replay(path, seed):
    chk = Check(PID, "quick", seed, "model_checking")
    r, n, mm = validate(path, "replay")
    chk.cov["events_validated"] = n
    chk.cov["states"] = max(1, r.distinct); chk.cov["transitions"] = max(1, r.generated)
    chk.cov["traces_validated_against_impl"] = n
    chk.sample(open(path).readline().strip()[:300])
    judge(chk, path, mm)
    return chk.finish()
