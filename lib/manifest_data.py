"""Source of MANIFEST.json (bin/mkmanifest writes it). One entry per claimed property."""
CHECKS = {
 "C06": dict(
   category="model_checking", design_ref="4 (C06)", technique="TLC exhaustive refinement model + TLC trace validation of emulator histories",
   text=("Paging.tla states the memory map as a function of the last accepted paging write; MC_Paging checks exhaustively "
         "(all 256 latch values, every port class, two data values, both machines) that the implementation-shaped latch "
         "(paging flag tested first, four window descriptors) refines it and that lock monotonicity, ROM immutability and "
         "aliasing hold. PagingTrace validates recorded behaviours of the real emulator (random histories and every latch "
         "history of length 2 followed by a probe of each window) against the same definitions, read by read."),
   note=("Trusted: TLC, the harness' single-step driver (three instructions at a reserved spot of bank 2) and the ROM image files "
         "as reference for ROM reads. Sampling, not proof, for the real 16K pages; exhaustive only in the 1-byte-page model.")),
}
NOT_YET = {}
HOOK_COMMITS = ["71990aa"]
