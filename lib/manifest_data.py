"""Source of MANIFEST.json (bin/mkmanifest writes it). One entry per claimed property."""
CHECKS = {
 "C06": dict(
   category="model_checking", design_ref="4 (C06)", technique="TLC exhaustive refinement model + TLC trace validation of emulator histories",
   text=("Paging.tla states the memory map as a function of the last accepted paging write; MC_Paging checks exhaustively "
         "(all 256 latch values, every port class, two data values, both machines) that the implementation-shaped latch "
         "(paging flag tested first, four window descriptors) refines it and that lock monotonicity, ROM immutability and "
         "aliasing hold. PagingTrace validates recorded behaviours of the real emulator (random histories and every latch "
         "history of length 2 followed by a probe of each window) against the same definitions, read by read."),
   note=("Trusted: TLC, the harness' single-step driver (three instructions at a reserved spot of bank 2) and the ROM image files "
         "as reference for ROM reads. Sampling, not proof, for the real 16K pages; exhaustive only in the 1-byte-page model.")),
}
CHECKS.update({
 "C01": dict(
   category="model_checking", design_ref="4 (C01/C03)", technique="TLC trace validation of recorded emulate() calls against a TLA+ transcription of the NMOS Z80",
   text=("Z80.tla defines one emulate() call (optional acknowledge + one instruction or prefix fragment) for all seven opcode pages: "
         "registers, all flag bits, MEMPTR, Q, R, IFF, IM and the ordered bus operations. The harness drives the real Z80 through a "
         "recording bus from boundary-biased random states for every one of the 1792 encodings (plus chained calls) and Z80Trace.tla "
         "requires each recorded post-state and data-operation list to be one of the outcomes the spec allows. A self-test corrupts "
         "logged fields and requires rejection."),
   note=("Trusted: TLC, my transcription of the documented Z80 (cross-checked: the pinned z80full/ccf/memptr tapes pass on the same tree), "
         "the recording bus. Sampling of operand space, exhaustive over encodings; Q after repeating block iterations not judged.")),
 "C02": dict(
   category="model_checking", design_ref="4 (C02)", technique="TLC exhaustive model of interrupt sequencing + TLC trace validation of an exhaustive control matrix on the real CPU",
   text=("Z80MC runs the spec CPU on three 16-byte ROMs under every schedule of INT/NMI levels and bus bytes (depth 14 quick / 22 thorough) and "
         "checks the statement clause by clause (acceptance only with IFF1 and not after EI/DI/prefix, flip-flops after INT/NMI, HALT release, "
         "pushed address, targets, 13/19/11 T, RETN/RETI) in terms of the fetched instruction stream. The real CPU is then run through the "
         "exhaustive matrix IFF1 x IFF2 x IM x halted x EI-shadow x pending prefix x INT x NMI x 25 instruction classes with chained calls and "
         "every call is validated against the same Outcomes() by Z80Trace."),
   note="Trusted: TLC, Z80.tla. NMI directly after EI/DI is left open as the statement does. ROMs are hand-picked, schedules exhaustive."),
 "C03": dict(
   category="model_checking", design_ref="4 (C01/C03)", technique="TLC trace validation of recorded bus-cycle lists against the TLA+ Z80",
   text=("Same events as C01 with INT/NMI lines driven at random: the recorded list of bus cycles (kind, address, T-states; internal delays one "
         "T-state at a time with the documented address; port cycles; interrupt entry 13/19/11 T) must equal the spec's list for every call, "
         "taken/not-taken, every repeat iteration and every prefix form."),
   note="Trusted: TLC, Z80.tla's cycle lists (transcribed from the documented machine cycles / contention tables). Sampling over operands."),
})
CHECKS.update({
 "C04": dict(
   category="model_checking", design_ref="4 (C04/C05)", technique="TLC trace validation of machine-level single steps against Z80.tla cycle lists folded through the TLA+ contention model",
   text=("Ula.tla states the contention model with the property's numbers (T0, T/line, 6,5,4,3,2,1,0,0 pattern, 128-T window, 192 lines, four I/O "
         "patterns, contended banks); MC_Ula proves by exhaustive constant-level evaluation that the implementation-shaped delay/frame/INT formulas "
         "equal it for every T of both frames. The full emulator is single-stepped from chosen in-frame times with code/stack/operands/I/port in every "
         "window, on 48K and on 128K with every bank at 0xC000; UlaTrace requires the clock after each call to equal RunOps(Emulate(pre).ops)."),
   note="Trusted: TLC, Z80.tla cycle lists (validated separately by C03), the clock accessor hook. Sampling over (instruction, T, placement); exhaustive only for the per-T delay function."),
 "C05": dict(
   category="model_checking", design_ref="4 (C04/C05)", technique="TLC clock model on real constants + TLAPS proof of the conservation step for every frame length + TLC trace validation of frame-crossing steps and free-running programs",
   text=("MC_Ula explores the wait_internal/new_frame clock with arbitrary instruction lengths on the real frame lengths (conservation of T-states, "
         "exactly one INT service per frame for a polling program). On the real emulator: calls started in the first 40 / last 30 T-states (INT accepted "
         "exactly while T < 32, overrun carried across the wrap) and busy/HALT loops over up to hundreds of frames under random FrameCount slicings, "
         "checked for executed T-states = frames x frame length + offset and interrupts = frames."),
   note="Trusted: TLC, the clock accessor hook, Z80.tla. Programs are three fixed loops; start times and slicings are random."),
})
CHECKS.update({
 "C10": dict(
   category="model_checking", design_ref="4 (C10)", technique="TLC cross-check of the LD-BYTES transcription + TLC trace validation of fast-load requests on the real emulator",
   text=("Tape.tla gives LD-BYTES twice: as the byte-by-byte run of the ROM listing and as a closed form; TLC checks them equal (and equal to the "
         "property's one-line success rule on its regular domain) over 30k exhaustive small cases. The real emulator then serves sequences of requests "
         "from fast-loaded random TAP images (buffer-boundary lengths, bad checksums, truncated blocks, LOAD/VERIFY, flag mismatch, DE quirks, ROM and "
         "wrap-around destinations, 48K/128K, requests past the end) and TapeTrace judges carry, IX, DE and the destination memory with the tape "
         "cursor as spec state."),
   note="Trusted: TLC, my reading of the ROM routine (checked against the ROM bytes at design time), the harness' caller stub. Sampling over tapes/requests."),
 "C11": dict(
   category="model_checking", design_ref="4 (C11/C12)", technique="TLC exhaustive scaled player model + TLC trace validation of every EAR edge of real tapes + real-time ROM loads",
   text=("The statement-shaped observer of Tape.tla accepts exactly the standard waveform (pilot count by flag byte, sync, two pulses per bit MSB first, "
         "pause, every pulse within [nominal, nominal+32]). MC_Tape drives the implementation-shaped player through every partition of time into steps on "
         "scaled constants; on the real player whole tapes are played with random 0..16 T steps and every edge is fed to the same observer with the real "
         "numbers. The ROM's own LD-BYTES is run in real emulated time against playing tapes and judged by the same LdBytes as C10."),
   note="Trusted: TLC, observer (statement-shaped), the Tap re-export hook. Pause tolerance 0.5-2 s is my reading of 'about one second'."),
 "C12": dict(
   category="model_checking", design_ref="4 (C11/C12)", technique="TLC exhaustive interleaving of deck commands on the scaled player model + TLC trace validation of random command histories",
   text=("MC_Tape interleaves up to 6 (thorough 9) play/stop/rewind commands with time steps at every point of the scaled waveform; the observer "
         "measures pulses in playing time, must keep matching across stop/play, restarts after rewind/auto-stop, and the level must be frozen while "
         "stopped; running out must have decoded every block once. The same is validated on the real player for random command histories at every "
         "phase of real tapes. TLC found play..stop;stop;play and rewind-with-stale-state on the as-is model (MC_Tape_cmds_asis.cfg); both were "
         "reproduced on the real code and fixed."),
   note="Trusted: TLC, the observer, the harness' notion of playing time (deck not stopped before the call). Scaled model: 3 tapes of 1-3 blocks."),
})
CHECKS.update({
 "C17": dict(
   category="model_checking", design_ref="4 (C17)", technique="TLC exhaustive refinement (matrices vs held-sets) + TLC trace validation of input histories read back by the emulated CPU",
   text=("Input.tla states the input ports from the sets of controls held per source; MC_Input checks for every event history to depth 4 (5) on a reduced "
         "universe that the implementation-shaped three-matrix/modifier-mask/port-byte design reads identically. On the real emulator random histories over "
         "all keys, compound keys, both Sinclair sticks, Kempston bits, mouse buttons/wheel/motion are applied and after each event the CPU reads every "
         "half-row, multi-row selectors (all 256 periodically) and the joystick/mouse ports; InputTrace compares each read. Reads explained only by the "
         "named deviation sinclair2down are reported as the known finding D11."),
   note="Trusted: TLC, the single-step IN A,(C) driver. D11 is open (pinned test hash enshrines it); any other mismatch is a VIOLATION."),
})
CHECKS.update({
 "C07": dict(
   category="model_checking", design_ref="4 (C07)", technique="TLC exhaustive constant-level decode check + TLC validation of complete 65536-port sweeps and floating-bus reads of the real emulator",
   text=("Ports.tla derives from the property's masks the set of devices each port selects; MC_Ports checks for all 65536 ports x 16 configurations that the "
         "controller's if/else decode chains reach exactly that device wherever the set is a singleton (or none). On the real emulator every port is read "
         "(IN A,(C)) with distinguishable device states and written (OUT) with probes of border, paging latch, AY select/data and the extender log, per "
         "configuration; PortsTrace judges both tables port by port. Floating-bus reads at chosen beam positions must be 0xFF outside the ULA's fetch "
         "groups and otherwise one of the bytes of the displayed bank being fetched."),
   note="Trusted: TLC, probes through canonical ports. Multi-device ports are not judged. Floating-bus window is generous (+-8 T), so only the set of allowed bytes is decided."),
})
CHECKS.update({
 "C08": dict(
   category="model_checking", design_ref="4 (C08)", technique="TLC constant-level inverse-map check + TLC validation of every pixel of recorded frames against the TLA+ decode",
   text=("Screen.tla carries the standard decode exactly as worded (offset formula, ink/paper/BRIGHT, FLASH). MC_Screen checks that the implementation's "
         "address->(line,column) maps invert it for all 6912 offsets. On the real emulator random and structured screens are delivered by 16 paths "
         "(CPU through either window, LDIR, fast-load, SNA, SZX stored/compressed, SCR, pokes; 48K/128K/shadow bank) and ScreenTrace compares all 49152 "
         "pixels of every later frame with the decode, inferring the flash phase (a whole 32-frame flash cycle is watched), and judges single bytes "
         "changed at beam time +-40 T with the statement's 'clearly before/after' = +-16 T."),
   note="Trusted: TLC, the recording frame buffer, the clock/bus-write hooks for the beam-relative part. Sampling over screen contents."),
})
CHECKS.update({
 "C09": dict(
   category="model_checking", design_ref="4 (C09)", technique="TLC exhaustive scaled painter model + TLC validation of recorded border frames against the statement's beam geometry",
   text=("Border.tla gives the beam time of every border pixel from the property's numbers and, for a frame's ULA writes, the set of colours a pixel may "
         "show (last write certainly before the beam, or one within the 16-pixel tolerance). MC_Border runs the implementation-shaped painter (beam "
         "cursor, changed/blocked flags, frame-end fill) on a scaled geometry for every placement of up to 3 writes in a frame (and 1+2 over two frames) "
         "and requires every pixel to be allowed. On the real emulator OUTs are issued at chosen beam times (several per line, retrace, frame end, none, "
         "after snapshot loads) and BorderTrace judges each completed 320x240 buffer row by row plus the reported border colour."),
   note="Trusted: TLC, the clock hook, the assumption that an OUT's write lands inside its I/O cycle. Sampling over write plans."),
})
CHECKS.update({
 "C13": dict(
   category="model_checking", design_ref="4 (C13/C14)", technique="TLC exhaustive encode/decode round trip on tiny pages + TLC validation of real save/load round trips against the TLA+ SNA format",
   text=("Snapshot.tla defines the 48K and 128K SNA layouts byte by byte (SnaByte) and their decoding; MC_Snapshot checks decode(encode(d)) = d for every "
         "carried field on 2-byte pages over every latch value and every stack position, and that a file of the other model decodes to an error. On the "
         "real emulator random machine states are saved; the file is compared with SnaByte at header, boundary, overridden and random positions (and "
         "byte-for-byte with an independent writer), the running machine's registers and whole RAM are compared before/after the save, and the file is "
         "loaded into the same emulator later, a fresh one and halted / mid-prefix / EI-shadow / paging-locked / other-border ones, with every "
         "register the format carries, border, latch+lock, all RAM and the non-inheritance of halt/prefix/EI judged."),
   note="Trusted: TLC, the RAM-bank read hook, the harness' independent SNA writer. Sampling over machine states."),
})
CHECKS.update({
 "C14": dict(
   category="model_checking", design_ref="4 (C13/C14)", technique="TLC validation of machines loaded from independently written SNA/SZX/SCR files against the TLA+ description they were written from",
   text=("Random machine descriptions are serialised by the harness' own SNA and SZX writers (stored and zlib pages, shuffled chunk order, unknown chunks, "
         "HALTED/EILAST flags, AY and mouse blocks) and loaded into fresh, halted, mid-prefix, paging-locked, EI-shadow emulators and into an emulator of "
         "the other model. SnapshotTrace requires: every register, IFF1/IFF2, IM, halted and EI-pending status, latch+lock, border and all RAM equal the "
         "description, AY registers read back through the ports, an audible AY description produces sound, mouse presence follows the file, a halted "
         "machine stays halted, nothing is inherited from the receiver, and files of the other model are rejected. Since every encoding is judged against "
         "the same description, equivalent files yield equal machines. SCR files load to 0x4000..0x5AFF (display decode is C08)."),
   note="Trusted: TLC, the harness' writers (SZX layout from the format description), miniz_oxide for zlib. Sampling over descriptions."),
})
CHECKS.update({
 "C20": dict(
   category="model_checking", design_ref="4 (C20)", technique="TLC exhaustive chunking model + TLC validation of per-call event logs of the real player",
   text=("Vtx.tla defines the canonical event log of a track (frame k's writes, R13=0xFF skipped, immediately before sample k*spf; frames*spf samples) "
         "and the implementation-shaped play() loop. MC_Vtx explores every sequence of play() calls with buffer lengths 0..5, mono and stereo, spf 1..3: "
         "the concatenated events are always a prefix of the canonical log and the end is reported exactly when all of it was produced. The real "
         "Player runs over a recording AY backend with random logs, rates, player frequencies and buffer lengths; VtxTrace checks every call's "
         "writes/samples/return value/buffer contents. The real AymPrecise backend must give bit-identical streams under three chunkings, and the "
         "four repository files, and generated files of 1..131077 frames (stored-literal LH5 streams, contents a function the spec knows), must "
         "decode to the transposition of their payload."),
   note="Trusted: TLC, delharc for decompressing the reference payload of the repository files."),
})
CHECKS.update({
 "C19": dict(
   category="model_checking", design_ref="4 (C19)", technique="TLC exhaustive scaled mixer model + TLAPS proof of the cursor arithmetic for all frame lengths and rates + TLC validation of per-frame sample runs of the real emulator",
   text=("Mixer.tla models the mixer in exact integers (queue, in-frame cursor, latched speaker level; process on every clock advance, padding at frame "
         "end, host drain). MC_Mixer explores every partition of two scaled frames into clock steps with speaker writes at any step under drain "
         "policies always/never/any and checks: exactly spf samples per drained frame, each sample carries a level that was in force within one sample "
         "period of its time, queue < 2 spf. MixerProofs.tla proves with TLAPS, for every frame length and rate, that the sample cursor is 0 / spf at the frame ends, bounded, monotone, and that an edge lands inside the EdgeOk window. On the real emulator bits 3/4 of port 0xFE are toggled at chosen T-states for rates 8000..384000, volumes, "
         "AY on/off, both machines and three drain policies; MixerTrace judges count, finiteness, the volume bound, and the position of every edge."),
   note="Trusted: TLC, tlapm with its SMT/Zenon back ends, the clock hook, the mapping of sample values to the four speaker/MIC levels (beeper-only configurations). Sampling over write plans."),
})
CHECKS.update({
 "C18": dict(
   category="model_checking", design_ref="4 (C18)", technique="TLC check of the envelope machine against the documented shape catalogue + TLC validation of tick-level and output-level experiments on the real AY core",
   text=("Ay.tla states tone/noise/envelope periods, the 16 envelope shapes as a closed formula from the data-sheet bits (CONTINUE/ATTACK/ALTERNATE/HOLD), "
         "the level index with mixer gating and the pan table; MC_Ay checks that the implementation-shaped segment/reset-table envelope machine produces "
         "exactly those shapes. Through the cfg(rustzx_verif) level hook the real core is observed per chip tick: tone half-periods, the noise clock, every "
         "envelope value after an R13 write, gating for random register sets. On the analog side: strictly increasing DAC levels, pan class per mode and "
         "channel, zero-crossing frequency at 8..384 kHz, finiteness and |s| <= 3. Through the Spectrum ports: select wraps mod 16 and reads return the "
         "last written value."),
   note="Trusted: TLC, the level hook (3 indices per tick, recorded inside update_mixer). Not decided: numeric accuracy of the resampling/filter chain."),
})
CHECKS.update({
 "C16": dict(
   category="model_checking", design_ref="4 (C16)", technique="TLC exhaustive host-loop model + TLC validation of per-frame machine digests across host drivings",
   text=("Emu.tla models emulate_frames over an abstract deterministic machine; MC_Emu explores every sequence of FrameCount(n) / Max (any stopwatch verdicts) "
         "calls with breakpoints on any subset of instruction numbers and checks that the machine is a function of the instructions executed alone and "
         "that every completed frame is handed to the host or still pending (also when it ends at a breakpoint). The real emulator runs the same scenario "
         "(ROM boot with a tape and a key script; tape inserted with the autoload snapshot and fast loading) under 18 drivings - repeated, random "
         "FrameCount partitions, Max mode, breakpoint stop/resume every k instructions, after every instruction and inside FrameCount(n) calls with speed "
         "re-selection at stops, a different way of driving for every call, sound off, audio never drained, four asset implementations - and EmuTrace requires the digest of registers, clock, all RAM, "
         "both frame buffers, border and paging (and the audio stream where comparable) to depend on (scenario, frame) only. Asset.tla is the "
         "byte-stream contract of LoadableAsset/SeekableAsset; MC_Asset runs the trait's read_exact loop over every behaviour the contract allows; "
         "AssetTrace validates random call sequences on BufferCursor, FileAsset, GzipAsset and DynamicAsset."),
   note="Trusted: TLC, a 64-bit FNV digest (collisions ignored), the RAM-bank hook. Four to eight scenarios per shard."),
})
CHECKS.update({
 "C15": dict(
   category="fault_enumeration", design_ref="4 (C15), 7", technique="TLC-enumerated catalogue of malformed file shapes and fault positions executed on the real loaders; TLC termination model of the chunk walkers; TLC judgement of recorded outcomes",
   text=("Totality over all byte strings is not a model-checking statement. The specification contributes (1) the chunk walker and the VTX string scanner "
         "as state machines whose number of passes TLC bounds on every abstract input (it exhibits the non-terminating scan when EOF does not stop it), and "
         "(2) the exhaustive catalogue of malformed shapes per format (5134 shapes: size fields against the real remainder, field values outside their "
         "domain, truncation at every boundary, gzip wrappers), which TLC writes out as vectors. The harness turns every shape into bytes, runs the real "
         "loaders under catch_unwind, a 5 s watchdog and a counting allocator, also with an asset that fails at every request index and with mutated and "
         "random inputs, then emulates 20 frames. LoaderTrace requires outcome in {ok, err}, no panic afterwards and memory <= 8 MiB + 3000 x input."),
   note=("Enumeration and sampling, not proof: absence of a crashing input is not claimed. Panic sites are classified by source file; D18 (a panic inside the "
         "third-party LH5 decoder) is an open known finding.")),
})
NOT_YET = {}

HOOK_COMMITS = ["71990aa", "ef4a40c", "f28e495", "519411b"]


# ---- additions of rounds 5-7 (applied to the evaluated texts)
def _rep(k, a, b):
    assert a in CHECKS[k]["text"], (k, a)
    CHECKS[k]["text"] = CHECKS[k]["text"].replace(a, b, 1)


_rep("C04", "UlaTrace requires the clock after each call", "Operand addresses of the nn encodings and the registers are drawn on window boundaries (words across memory of different contention status), every other machine has an I/O extender claiming a port pattern; UlaTrace requires the clock after each call")
_rep("C05", "checked for executed T-states = frames x frame length + offset", "with Max-mode calls and breakpoint stops mixed in and, in three fifths of the runs, a good or damaged tape playing in real time (the host carries on after tape errors), checked for executed T-states = frames x frame length + offset")
_rep("C06", "followed by a probe of each window)", "followed by a probe of each window; files offered by the host in between: rejected ones change nothing, well-formed snapshots of the own model restart memory, latch and lock from the file, on the 48K without creating a latch)")
_rep("C07", "and the extender log, per configuration;", "and the extender log, per configuration (extender claims overlapping ULA, latch and AY; device set from the settings or from an SZX mouse chunk saying Kempston, AMX or none);")
_rep("C09", "(several per line, retrace, frame end, none, after snapshot loads)", "(several per line, retrace, frame end, none, through any even port, after SNA/SZX loads at frame boundaries and in mid-frame, with and without an I/O extender on port 0x00FE)")
_rep("C10", "48K/128K, requests past the end)", "48K/128K, requests past the end, host rewinds and fast-load switching between requests, machines reused across tapes, debugger stops inside the ROM routine)")
_rep("C11", "played with random 0..16 T steps", "played with random 0..16 T steps (some wound back in the first pass, some with redundant PLAY presses)")
_rep("C14", "and into an emulator of the other model.", "and into an emulator of the other model; 48K receivers come with or without an AY and with an AY switch history (run-time switch, earlier SZX without AY).")
_rep("C17", "InputTrace compares each read.", "A tenth of the steps start with a host operation that is no input event (snapshot load, sound/AY switch), which must not change what any source holds. InputTrace compares each read.")
_rep("C18", "Through the Spectrum ports: select wraps mod 16 and reads return the last written value.", "Through the Spectrum ports (machines with and without a moving Kempston mouse/joystick, every address pattern that selects the AY): select wraps mod 16 and reads return the last written value; a repeated R13 write restarts the envelope.")
_rep("C19", "AY on/off, both machines and three drain policies;", "AY on/off, both machines, three drain policies, hosts that start muted and unmute, machines without the beeper device, SZX loads restoring speaker/MIC;")
_rep("C20", "VtxTrace checks every call's", "and rewind()/set_frame() between calls; VtxTrace checks every call's")
_rep("C16", "under 18 drivings", "under 20 drivings")
_rep("C16", "sound off, audio never drained,", "sound off, AY off, both switched at run time, audio never drained,")

_rep("C06", "followed by a probe of each window;", "followed by a probe of each window; the first steps of every history probe the power-on map before any paging write;")
_rep("C08", "single-byte", "single-byte") if False else None
_rep("C11", "The ROM's own LD-BYTES is run", "On the whole machine (hook verif_tape) tapes are played through the emulator's API while the CPU runs one of five instruction mixes incl. HALT between interrupts, the EAR level sampled after every instruction (measuring slack of 28 T as a parameter of the observer). The ROM's own LD-BYTES is run")
_rep("C13", "other-border ones, with every", "other-border ones (two thirds of the saved machines run known code first, one third sit in DI; HALT when saved, and the restored machine must continue for four instructions exactly as a twin of the saved one), with every")
_rep("C14", "SnapshotTrace requires:", "SZX files carry any frame clock, half of the receivers are stopped in mid-frame and the frame the machine continues is sampled where the beam comes after the load. SnapshotTrace requires:")
_rep("C15", "", "") if False else None
_rep("C18", "gating for random register sets.", "gating for random register sets, and in register histories (tone periods written in halves through boundary values) the exact length of every stretch of equal level.")
_rep("C12", "The same is validated on the real player for random command histories at every phase of real tapes.", "The same is validated on the real player for random command histories at every phase of real tapes, and on the whole machine: decks driven through the emulator's own play_tape / stop_tape / rewind_tape while a program runs, into the automatic stop and through a second pass.")
_rep("C15", "(5134 shapes:", "(more than 5000 shapes:")
_rep("C15", "gzip wrappers)", "gzip wrappers, compressed pages that inflate to more than a page, more than 64 KiB, 16 MiB)")
_rep("C15", "with an asset that fails at every request index", "with an asset that fails at every request index, with both end-of-data conventions of a host asset (error / read of 0 bytes)")
_rep("C15", "memory <= 8 MiB + 3000 x input.", "memory <= 8 MiB + 3000 x input for the formats that wrap a compressed stream whose whole contents are needed (gzip, VTX) and <= 4 MiB + 8 x input for the others.")

_rep("C05", "with Max-mode calls and breakpoint stops mixed in", "with Max-mode calls and breakpoint stops (every k instructions, k down to 1) mixed in")
_rep("C06", "the first steps of every history probe", "host ROM pages arrive in one piece or in several; the first steps of every history probe")
_rep("C07", "Floating-bus reads at chosen beam positions", "Floating-bus reads at chosen beam positions (normal and shadow screen, also reached by a write that locks the latch in the same go)")
_rep("C08", "", "") if False else None
_rep("C12", "and on the whole machine:", "with the fast loader taking blocks of an unstarted tape in between (fastblock), and on the whole machine:")
_rep("C14", "SnapshotTrace requires:", "SnapshotTrace requires (besides the Q latch being clear unless the SZX says FSET):")
_rep("C17", "A tenth of the steps start", "A third of the scans read with INI instead of IN A,(C). A tenth of the steps start")
_rep("C20", "random logs, rates, player frequencies and buffer lengths", "random logs, layouts (mono, ABC..CBA), rates, player frequencies and buffer lengths")
_rep("C08", "delivered by 16 paths", "delivered by 21 paths")
_rep("C08", "and judges single bytes changed at beam time +-40 T", "judges the frame a mid-frame SZX load continues (cells after the file's own clock), frames after a screen bank flip in mid-picture, writes that must not reach the visible display file, and single bytes changed (by the CPU or by a host poke) at beam time +-40 T, long before and after the picture,")
_rep("C09", "with and without an I/O extender on port 0x00FE)", "with and without an I/O extender on port 0x00FE, OUTs across the frame end, the byte written before a load repeated after it)")
_rep("C10", "debugger stops inside the ROM routine)", "debugger stops inside the ROM routine, zero-length blocks)")
_rep("C16", "(ROM boot with a tape and a key script;", "(ROM boot with a tape and a key script; a probe program reading AY, Kempston and keyboard ports; a jump to the fast-load trap that coincides with a frame end;")
_rep("C18", "a repeated R13 write restarts the envelope.", "a repeated R13 write restarts the envelope, also when registers are selected with upper bits set.")
_rep("C19", "SZX loads restoring speaker/MIC;", "SZX loads restoring speaker/MIC, idle loops of short and of 23-T instructions;")

_rep("C08", "delivered by 21 paths", "delivered by 22 paths")
_rep("C09", "OUTs across the frame end,", "OUTs across the frame end, frames that are the first of a two-frame call,")
_rep("C10", "zero-length blocks)", "zero-length blocks, tape assets that hand out a few bytes per read)")
_rep("C12", "with the fast loader taking blocks", "with stops placed inside the sync pulses and the fast loader taking blocks")
_rep("C14", "(besides the Q latch being clear unless the SZX says FSET)", "(besides the Q latch being clear unless the SZX says FSET, and the painted border being the file's)")
_rep("C15", "then emulates 20 frames.", "then emulates 20 frames plus three of a program that polls the AY, keyboard, joystick and mouse ports.")

_rep("C10", "tape assets that hand out a few bytes per read)", "tape assets that hand out a few bytes per read; the shortcut must take the same emulated time wherever the data lies)")

_rep("C07", "PortsTrace judges both tables port by port.", "PortsTrace judges both tables port by port; histories of arbitrary values written to arbitrary ports with the sound on must leave the border colour and the speaker/MIC level heard at the last value that reached the ULA.")
_rep("C18", "a repeated R13 write restarts the envelope", "for both chip types (AY, YM) a slow attack ramp is a rising staircase of 32 settled amplitudes and fixed volume v sounds like envelope level 2v+1; a repeated R13 write restarts the envelope")

_rep("C05", "exactly one INT service per frame for a polling program).", "exactly one INT service per frame for a polling program); UlaProofs.tla proves the conservation step of the same Tick definition with TLAPS for every frame length.")

_rep("C12", "random command histories", "random command histories (with bursts of STOP / PLAY / STOP a few hundred T apart; the deck must report stopped after every STOP)")
_rep("C14", "and into an emulator of the other model;", "and into an emulator of the other model, through assets that hand the file out whole or in pieces (mouse chunk absent / none / AMX / Kempston);")
