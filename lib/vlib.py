"""Shared driver machinery: harness build, TLC invocation and output parsing, evidence and
known-findings handling.  Python stdlib only."""
import json, os, re, shutil, subprocess, sys, time, threading
from concurrent.futures import ThreadPoolExecutor

VERIF = os.path.dirname(os.path.dirname(os.path.abspath(__file__)))
SPEC = os.path.join(VERIF, "spec")
HARNESS = os.path.join(VERIF, "harness")
WORK = os.path.join(VERIF, "work")
EVID = os.path.join(VERIF, "evidence")
BIN = os.path.join(HARNESS, "target", "release", "vharness")


class ToolError(Exception):
    pass


def log(*a):
    print(*a, file=sys.stderr, flush=True)


def workdir(pid, sub=None):
    d = os.path.join(WORK, pid) if sub is None else os.path.join(WORK, pid, sub)
    os.makedirs(d, exist_ok=True)
    return d


_build_lock = threading.Lock()
_built = False


def build_harness():
    """Rebuilds the harness; its path dependencies point at /repo's working tree, so every check
    runs against the current sources with the hooks enabled (rustflags in .cargo/config.toml)."""
    global _built
    with _build_lock:
        if _built:
            return
        env = dict(os.environ)
        env["CARGO_NET_OFFLINE"] = "true"
        env.pop("RUSTFLAGS", None)
        env.pop("CARGO_TARGET_DIR", None)
        env.pop("CARGO_BUILD_TARGET_DIR", None)
        t0 = time.time()
        # serialise concurrent checks (cargo also locks, this just keeps the logs readable)
        p = subprocess.run(["cargo", "build", "--release", "--offline"], cwd=HARNESS, env=env,
                           stdout=subprocess.PIPE, stderr=subprocess.STDOUT, text=True)
        if p.returncode != 0:
            log(p.stdout[-6000:])
            raise ToolError("harness build failed")
        log(f"[build] harness ok in {time.time()-t0:.1f}s")
        _built = True


class HarnessPanic(Exception):
    def __init__(self, args, message):
        Exception.__init__(self, message)
        self.hargs = args
        self.message = message


def report_harness_panic(pid, tier, seed, e):
    """VIOLATION for a panic of the driver process; the replay file re-runs the same harness command"""
    d = workdir(pid, "replay")
    path = os.path.join(d, "panic.ndjson")
    with open(path, "w") as f:
        f.write(json.dumps({"ev": "harness_panic", "args": e.hargs, "message": e.message}) + "\n")
    os.makedirs(EVID, exist_ok=True)
    with open(os.path.join(EVID, pid + ".json"), "w") as f:
        level = "model_checking"
        try:
            man = json.load(open(os.path.join(VERIF, "MANIFEST.json")))
            level = [c["level_claimed"] for c in man["checks"] if c["property_id"] == pid][0]
        except Exception:
            pass
        json.dump({"property_id": pid, "tier": tier, "seed": seed, "level": level,
                   "coverage": {"states": 1, "transitions": 1, "traces_validated_against_impl": 0, "evaluations": 1, "distinct_nontrivial": 1,
                                "rule": "the driver process panicked while exercising the code under test; no trace could be validated",
                                "samples": [e.message[:400]]},
                   "assumptions": [], "wall_s": 0, "violations": 1, "known_findings_hit": {}}, f, indent=1)
    print(f"VIOLATION property={pid} replay={path}")
    log("    driver panic:", e.message[:600])
    return 1


def replay_harness_panic(pid, path, seed):
    """re-runs the recorded harness command: exit 1 if it panics again, 0 otherwise"""
    e = json.loads(open(path).readline())
    args = list(e["args"])
    if "--out" in args:
        args[args.index("--out") + 1] = os.path.join(workdir(pid), "panic_replay.ndjson")
    try:
        harness(args)
    except HarnessPanic as e2:
        return report_harness_panic(pid, "quick", seed, e2)
    log(f"[{pid}] the recorded driver command no longer panics")
    return 0


def harness(args, timeout=3600, check=True, env_extra=None):
    build_harness()
    env = dict(os.environ)
    env["RUST_BACKTRACE"] = "0"
    if env_extra:
        env.update(env_extra)
    t0 = time.time()
    try:
        p = subprocess.run([BIN] + [str(a) for a in args], stdout=subprocess.PIPE,
                           stderr=subprocess.PIPE, text=True, timeout=timeout, env=env)
    except subprocess.TimeoutExpired:
        raise ToolError(f"harness timeout: {args}")
    if check and p.returncode == 101:
        # a Rust panic: either the code under test panicked outside a guarded call, or it returned something the
        # driver cannot go on with (an Err from a call on well-formed input, a state the scenario relies on not
        # reached). That is data about the code under test, not a tool failure.
        msg = [l for l in p.stderr.splitlines() if "panicked at" in l or l.startswith("assertion") or "left:" in l or "right:" in l]
        log(p.stderr[-2000:])
        raise HarnessPanic([str(a) for a in args], " | ".join(msg)[-1500:] or p.stderr[-500:])
    if check and p.returncode != 0:
        log(p.stderr[-4000:])
        raise ToolError(f"harness failed rc={p.returncode}: {args}")
    return p


class TlcResult:
    def __init__(self):
        self.ok = False          # TLC finished without reporting an error
        self.generated = 0
        self.distinct = 0
        self.depth = 0
        self.prints = []         # raw printed tuples (strings starting with <<)
        self.error = ""
        self.wall = 0.0
        self.raw = ""
        self.coverage = {}

    def tuples(self, tag):
        """Printed tuples whose first element is the string `tag`, parsed into python values."""
        out = []
        for s in self.prints:
            if re.match(r'<<\s*"%s"' % re.escape(tag), s):
                try:
                    out.append(parse_tla(s))
                except Exception:
                    out.append([tag, s])
        return out


def parse_tla(s):
    """Parses TLC's printed values: tuples, records, strings, ints, booleans, sets, functions
    written with :> and @@."""
    pos = 0
    n = len(s)

    def ws():
        nonlocal pos
        while pos < n and s[pos] in " \n\t\r":
            pos += 1

    def val():
        nonlocal pos
        ws()
        if s.startswith("<<", pos):
            pos += 2
            items = []
            ws()
            if s.startswith(">>", pos):
                pos += 2
                return items
            while True:
                items.append(expr())
                ws()
                if s.startswith(">>", pos):
                    pos += 2
                    return items
                assert s[pos] == ",", (s[pos:pos + 20])
                pos += 1
        if s[pos] == "[":
            pos += 1
            d = {}
            ws()
            if s[pos] == "]":
                pos += 1
                return d
            while True:
                ws()
                m = re.match(r"[A-Za-z_][A-Za-z_0-9]*", s[pos:])
                k = m.group(0)
                pos += len(k)
                ws()
                assert s.startswith("|->", pos)
                pos += 3
                d[k] = expr()
                ws()
                if s[pos] == "]":
                    pos += 1
                    return d
                assert s[pos] == ","
                pos += 1
        if s[pos] == "{":
            pos += 1
            items = []
            ws()
            if s[pos] == "}":
                pos += 1
                return items
            while True:
                items.append(expr())
                ws()
                if s[pos] == "}":
                    pos += 1
                    return items
                assert s[pos] == ","
                pos += 1
        if s[pos] == '"':
            j = pos + 1
            out = []
            while s[j] != '"':
                if s[j] == "\\":
                    j += 1
                out.append(s[j])
                j += 1
            pos = j + 1
            return "".join(out)
        if s[pos] == "(":
            pos += 1
            v = expr()
            ws()
            assert s[pos] == ")"
            pos += 1
            return v
        m = re.match(r"-?\d+", s[pos:])
        if m:
            pos += len(m.group(0))
            return int(m.group(0))
        m = re.match(r"TRUE|FALSE", s[pos:])
        if m:
            pos += len(m.group(0))
            return m.group(0) == "TRUE"
        m = re.match(r"[A-Za-z_][A-Za-z_0-9]*", s[pos:])
        if m:
            pos += len(m.group(0))
            return m.group(0)
        raise ValueError("cannot parse at %r" % s[pos:pos + 30])

    def expr():
        nonlocal pos
        v = val()
        ws()
        # function literals  a :> b @@ c :> d
        if s.startswith(":>", pos):
            d = {}
            k = v
            while True:
                pos += 2
                d[json.dumps(k) if not isinstance(k, (str, int)) else k] = val()
                ws()
                if s.startswith("@@", pos):
                    pos += 2
                    k = val()
                    ws()
                    assert s.startswith(":>", pos)
                    continue
                return d
        return v

    return expr()


_tlc_sem = threading.Semaphore(12)


def tlc(module, cfg, pid, name, trace=None, workers=1, timeout=1800, deque=True, heap="4g",
        extra=None, env_extra=None, simulate=None):
    """Runs TLC on spec/<module>.tla with spec/<cfg>; returns TlcResult. `trace` is exported as
    env TRACE for trace specs (read through IOEnv)."""
    meta = os.path.join(workdir(pid), "tlc_" + name)
    shutil.rmtree(meta, ignore_errors=True)
    os.makedirs(meta, exist_ok=True)
    env = dict(os.environ)
    jopts = "-Xss1g -Xmx" + heap
    if deque:
        jopts += " -Dtlc2.tool.queue.IStateQueue=StateDeque"
    env["JAVA_TOOL_OPTIONS"] = jopts
    if trace:
        env["TRACE"] = trace
    if env_extra:
        env.update({k: str(v) for k, v in env_extra.items()})
    cp = "/opt/veriftools/tla/tla2tools.jar:/opt/veriftools/tla/CommunityModules-deps.jar"
    cmd = ["timeout", str(timeout), "tlc", "-workers", str(workers), "-metadir", meta, "-cleanup",
           "-noGenerateSpecTE", "-config", os.path.join(SPEC, cfg)]
    if simulate:
        cmd += ["-simulate", simulate]
    if extra:
        cmd += extra
    cmd += [os.path.join(SPEC, module + ".tla")]
    r = TlcResult()
    t0 = time.time()
    with _tlc_sem:
        p = subprocess.run(cmd, cwd=SPEC, env=env, stdout=subprocess.PIPE, stderr=subprocess.STDOUT,
                           text=True)
    r.wall = time.time() - t0
    r.raw = p.stdout
    out_path = os.path.join(workdir(pid), "tlc_" + name + ".out")
    with open(out_path, "w") as f:
        f.write(p.stdout)
    shutil.rmtree(meta, ignore_errors=True)
    # collect printed tuples (may span lines when long)
    buf = None
    for line in p.stdout.splitlines():
        if buf is not None:
            buf += " " + line.strip()
            if buf.count("<<") == buf.count(">>") and buf.count("[") == buf.count("]"):
                r.prints.append(buf)
                buf = None
            continue
        if line.startswith("<<"):
            if line.count("<<") == line.count(">>") and line.count("[") == line.count("]"):
                r.prints.append(line.strip())
            else:
                buf = line.strip()
    m = re.search(r"(\d+) states generated, (\d+) distinct states found", p.stdout)
    if m:
        r.generated, r.distinct = int(m.group(1)), int(m.group(2))
    m = re.search(r"depth of the complete state graph search is (\d+)", p.stdout)
    if m:
        r.depth = int(m.group(1))
    if p.returncode == 124:
        r.error = "timeout"
        raise ToolError(f"TLC timeout on {module}/{cfg} (see {out_path})")
    finished = "Model checking completed. No error has been found." in p.stdout or \
               (simulate and p.returncode == 0)
    if finished:
        r.ok = True
    else:
        # distinguish property violations (data) from tool problems
        err = [l for l in p.stdout.splitlines() if l.startswith("Error:")]
        r.error = "\n".join(err) or f"rc={p.returncode}"
        if not any(("is violated" in e) or ("violated" in e) or ("Deadlock" in e) or
                   ("Assumption" in e) or ("postcondition" in e.lower()) for e in err):
            log(p.stdout[-3000:])
            raise ToolError(f"TLC failed on {module}/{cfg}: {r.error} (see {out_path})")
    return r


def _defs(path, names):
    """the text of top-level operator definitions (whitespace-normalised), for keeping a proof
    module's copy of a definition identical to the one the trace spec uses"""
    txt = open(path).read()
    out = {}
    for n in names:
        m = re.search(r"^" + re.escape(n) + r"\([^)]*\)\s*==(.*?)(?=^\S|\Z)", txt, re.S | re.M)
        out[n] = " ".join(l.split("\\*")[0].strip() for l in m.group(1).splitlines()).split() if m else None
    return out


def tlaps(module, pid, shared_with=None, shared=(), timeout=600):
    """Checks spec/<module>.tla with the TLA+ proof system (fresh cache in the work directory).
    Returns {"obligations", "proved", "wall_s"}; anything but "all proved" is a tool error (a proof
    is about the specification, not about the code under test)."""
    wd = os.path.join(workdir(pid), "tlaps_" + module)
    shutil.rmtree(wd, ignore_errors=True)
    os.makedirs(wd, exist_ok=True)
    src = os.path.join(SPEC, module + ".tla")
    shutil.copy(src, wd)
    if shared_with:
        a, b = _defs(src, shared), _defs(os.path.join(SPEC, shared_with + ".tla"), shared)
        for n in shared:
            if a[n] is None or a[n] != b[n]:
                raise ToolError(f"{module}.tla: definition of {n} differs from {shared_with}.tla")
    t0 = time.time()
    p = subprocess.run(["timeout", str(timeout), "tlapm", "--threads", "4", module + ".tla"], cwd=wd,
                       stdout=subprocess.PIPE, stderr=subprocess.STDOUT, text=True)
    m = re.search(r"All (\d+) obligations? proved", p.stdout)
    if not m:
        f = re.search(r"(\d+)/(\d+) obligations failed", p.stdout)
        raise ToolError(f"tlapm {module}: " + (f.group(0) if f else p.stdout[-300:]))
    return {"module": module, "obligations": int(m.group(1)), "proved": int(m.group(1)), "wall_s": round(time.time() - t0, 1)}


def parallel(fns, max_workers=12):
    with ThreadPoolExecutor(max_workers=max_workers) as ex:
        futs = [ex.submit(f) for f in fns]
        return [f.result() for f in futs]


def load_known(pid):
    path = os.path.join(VERIF, "known_findings.json")
    if not os.path.exists(path):
        return []
    with open(path) as f:
        doc = json.load(f)
    return [e for e in doc.get("findings", []) if e.get("property") == pid and
            e.get("status") == "open"]


def split_trace(path, reset_key="reset"):
    """Yields (start_line, [raw lines]) per run (delimited by reset events)."""
    runs = []
    cur = None
    with open(path) as f:
        for i, line in enumerate(f, 1):
            if '"ev":"%s"' % reset_key in line:
                cur = [i, []]
                runs.append(cur)
            if cur is None:
                cur = [i, []]
                runs.append(cur)
            cur[1].append(line)
    return runs


def extract_run(path, lineno):
    """Lines of the run that contains 1-based line `lineno` (from its reset event up to it)."""
    run = []
    with open(path) as f:
        for i, line in enumerate(f, 1):
            if '"ev":"reset"' in line:
                run = []
            run.append(line)
            if i == lineno:
                break
    return run


class Check:
    """Collects the outcome of one check run and writes evidence / prints the verdict lines."""

    def __init__(self, pid, tier, seed, level):
        self.pid, self.tier, self.seed, self.level = pid, tier, seed, level
        self.t0 = time.time()
        self.violations = []      # (description, replay_path)
        self.known_hits = {}      # finding id -> count
        self.cov = {"states": 0, "transitions": 0, "traces_validated_against_impl": 0,
                    "samples": [], "events_validated": 0, "spec_runs": []}
        self.assumptions = []
        self.known = load_known(pid)

    def add_spec_run(self, name, r, constants=""):
        self.cov["states"] += r.distinct
        self.cov["transitions"] += r.generated
        self.cov["spec_runs"].append({"name": name, "distinct": r.distinct, "generated": r.generated,
                                      "depth": r.depth, "wall_s": round(r.wall, 1),
                                      "constants": constants})

    def sample(self, x):
        if len(self.cov["samples"]) < 6:
            self.cov["samples"].append(x)

    def violation(self, desc, replay_lines=None, replay_name=None, extra=None):
        d = workdir(self.pid, "replay")
        n = len(self.violations)
        path = os.path.join(d, (replay_name or f"v{n}") + ".ndjson")
        if callable(replay_lines):      # lazily built: only violations that are written out pay for it
            replay_lines = replay_lines()
        with open(path, "w") as f:
            for line in (replay_lines or []):
                f.write(line if line.endswith("\n") else line + "\n")
        with open(path + ".why.json", "w") as f:
            json.dump({"property": self.pid, "what": desc, "extra": extra}, f, indent=1, default=str)
        self.violations.append((desc, path))

    def classify(self, key, desc, replay_lines=None, extra=None):
        """A mismatch with classification key `key`: known finding (if listed) or violation."""
        for k in self.known:
            if k.get("key") == key:
                self.known_hits[k["id"]] = self.known_hits.get(k["id"], 0) + 1
                return "known"
        if len(self.violations) < 20:
            self.violation(desc, replay_lines, extra=extra)
        else:
            self.violations.append((desc, self.violations[-1][1]))
        return "violation"

    def selftest_failed(self, msg):
        """the binding self-test expects a clean base trace: when the run itself has violations the counts of the
        corrupted copy are not comparable, and the violations are what gets reported"""
        self.cov.setdefault("selftest", {})["note"] = msg
        if self.violations:
            return
        raise ToolError("self-test: " + msg)

    def finish(self):
        wall = time.time() - self.t0
        os.makedirs(EVID, exist_ok=True)
        ev = {
            "property_id": self.pid, "tier": self.tier, "seed": self.seed, "level": self.level,
            "coverage": self.cov, "assumptions": self.assumptions, "wall_s": round(wall, 2),
            "violations": len(self.violations),
            "known_findings_hit": self.known_hits,
        }
        with open(os.path.join(EVID, self.pid + ".json"), "w") as f:
            json.dump(ev, f, indent=1, default=str)
        for k in self.known:
            if k["id"] in self.known_hits:
                print(f"KNOWN-FINDING: property={self.pid} {k['id']}: {k['what']} "
                      f"(seen {self.known_hits[k['id']]}x)")
        if self.violations:
            seen = set()
            for desc, path in self.violations[:3]:
                if path in seen:
                    continue
                seen.add(path)
                print(f"VIOLATION property={self.pid} replay={path}")
                log("   ", desc)
            return 1
        log(f"[{self.pid}] ok: {self.cov['events_validated']} events validated, "
            f"{self.cov['states']} spec states, {wall:.1f}s")
        return 0
